// C18 - Web-Mercator projection and tile numbers: accurate, in range, monotone.
//
// Finite-domain enumeration over fixed-point coordinates (1e-7 degree units), one axis at a time:
//   --part lat    latitudes  -900000000..900000000 at a fixed longitude
//   --part lon    longitudes -1800000000..1800000000 at a fixed latitude
//   --part grid   boundary/stride longitudes x boundary/stride latitudes (rows and columns)
// quick: windows of consecutive values around every special value + a strided sweep;
// thorough: additionally every single fixed-point latitude (1 800 000 001 values, contiguous per
// shard, the shards overlap by one value so that every pair of consecutive values is compared);
// for longitudes (x is linear in the longitude) +-10^6 consecutive values around every special
// value and every 11th value of the axis.
//
// For every visited point the real library is driven through its public entry points
// (lonlat_to_mercator, MercatorProjection::operator(), mercator_to_lonlat, Tile(zoom, Location),
// Tile(zoom, Coordinates)) for every zoom 0..30, and compared with the oracles below.
#include <benum/benum.hpp>

#include <osmium/geom/mercator_projection.hpp>
#include <osmium/geom/tile.hpp>
#include <osmium/osm/location.hpp>

#include <algorithm>
#include <cmath>
#include <cstring>
#include <set>
#include <string>
#include <vector>

using benum::Args;
namespace og = osmium::geom;

static benum::Counters C;
// Violations with a cap on the number of distinct class keys per process: a library broken everywhere
// (every point x many zoom patterns) must not flood the driver; the first 48 classes are evidence enough.
static struct CappedViolations {
    benum::Violations v;
    std::set<std::string> keys;
    uint64_t suppressed = 0;
    void report(const std::string& key, const std::string& detail, const std::string& spec) {
        if (!keys.count(key)) {
            if (keys.size() >= 48) { ++suppressed; return; }
            keys.insert(key);
        }
        v.report(key, detail, spec);
    }
} V;

static const int64_t LATMAX = 900000000, LONMAX = 1800000000;
static const int NZ = 31;                       // zoom 0..30 (Tile::max_zoom)
static const int64_t SQUARE = 850511288;        // MERCATOR_MAX_LAT in fixed point (documented constant)
enum Axis { LAT = 0, LON = 1 };

// hot-path counters (flushed into the shared-memory Counters at the end)
static struct Stat {
    uint64_t evaluations, nontrivial, tile_evaluations, fast_path, tan_path, outside_square, clamp_engaged,
             cast_out_of_int32, nonfinite_projection, pairs, consecutive_pairs, tile_boundary_crossed,
             ref_checked, functor_differs, ctor_differs;
} S;
static std::set<std::string> outcome_set;
static double max_abs_diff = 0, max_step_ratio = 0;

// ------------------------------------------------------------------------------------------------
// regions for class keys
static bool on_fast_path(int64_t lat) { return lat >= -780000000 && lat <= 780000000; }

static std::string lat_region(int64_t v) {
    if (v == -LATMAX) return "lat=-90";
    if (v == LATMAX) return "lat=+90";
    if (v < -SQUARE) return "south-of-square";
    if (v > SQUARE) return "north-of-square";
    const char* h = v < 0 ? "S" : "N";
    int64_t a = v < 0 ? -v : v;
    if (a > 780000000) return std::string(h) + "78..85";
    if (a >= 700000000) return std::string(h) + "70..78";
    if (a >= 450000000) return std::string(h) + "45..70";
    return std::string(h) + "0..45";
}
static std::string lon_region(int64_t v) {
    if (v == -LONMAX) return "lon=-180";
    if (v == LONMAX) return "lon=+180";
    return v < 0 ? "west" : "east";
}
static std::string region(Axis ax, int64_t v) { return ax == LAT ? lat_region(v) : lon_region(v); }
static std::string pair_region(Axis ax, int64_t a, int64_t b) {   // a < b
    if (ax == LAT && on_fast_path(a) != on_fast_path(b)) return a < 0 ? "switch-over=-78" : "switch-over=+78";
    return region(ax, a);
}

static std::string zoom_list(uint32_t mask) {   // bit z set -> "1..29", "3,5..6" (for the detail text)
    std::string s;
    for (int z = 0; z < NZ; ++z) {
        if (!(mask >> z & 1)) continue;
        int e = z;
        while (e + 1 < NZ && (mask >> (e + 1) & 1)) ++e;
        if (!s.empty()) s += ",";
        s += std::to_string(z);
        if (e > z) s += ".." + std::to_string(e);
        z = e;
    }
    return s;
}
// for class keys: one contiguous range of zoom levels is named, anything else is "scattered"
static std::string zoom_ranges(uint32_t mask) {
    const std::string s = zoom_list(mask);
    return s.find(',') == std::string::npos ? s : "scattered";
}

static std::string fmt(const char* f, double a, double b = 0, double c = 0, double d = 0) {
    char buf[400];
    snprintf(buf, sizeof buf, f, a, b, c, d);
    return buf;
}

// ------------------------------------------------------------------------------------------------
// independent reference (long double): the textbook spherical Mercator with R = 6378137 m.
static const long double R_REF = 6378137.0L;
static const long double PI_REF = 3.141592653589793238462643383279502884L;
static long double ref_x(int64_t lon) { return R_REF * (static_cast<long double>(lon) / 1e7L) * PI_REF / 180.0L; }
static long double ref_y(int64_t lat) { return R_REF * asinhl(tanl((static_cast<long double>(lat) / 1e7L) * PI_REF / 180.0L)); }
// The tile that contains a projected coordinate, as an interval [lo, hi] of acceptable numbers: the
// property grants the projection 1 cm, the library's half-width constant (20037508.34) differs from
// R*pi by 2.8 mm; both are allowed for here (TOL_M). pos = metres from the west / north edge.
static const long double TOL_M = 0.0131L;
static const long double HALF = 20037508.34L;
struct RefPos {                 // floor((pos -+ TOL_M) / zoom-30 tile extent), clamped into the zoom-30 tile range
    int64_t lo30, hi30;
    explicit RefPos(long double pos) {
        const long double ext30 = 2 * HALF / 1073741824.0L;
        const int64_t last = (int64_t(1) << 30) - 1;
        lo30 = std::max<int64_t>(0, std::min(last, static_cast<int64_t>(floorl((pos - TOL_M) / ext30))));
        hi30 = std::max<int64_t>(0, std::min(last, static_cast<int64_t>(floorl((pos + TOL_M) / ext30))));
    }
};
// tile at zoom z = tile at zoom 30 divided by 2^(30-z), rounded down (floor(x / 2^k) == floor(floor(x) / 2^k))
static void ref_tile(int z, const RefPos& r, int64_t& lo, int64_t& hi) { lo = r.lo30 >> (30 - z); hi = r.hi30 >> (30 - z); }

// ------------------------------------------------------------------------------------------------
struct Pt {
    int64_t v = 0;            // fixed-point value on the walked axis
    double m = 0;             // projected coordinate on that axis (lonlat_to_mercator)
    uint32_t t[NZ];           // tile number on that axis per zoom, Tile(zoom, Location)
};

// Walks along one axis; step(v) observes the library at v, applies the single-point oracles and the
// pair oracles against the previously visited (smaller) value.
class Walker {
    Axis m_ax;
    int32_t m_other;          // fixed coordinate on the other axis
    Pt m_prev;
    bool m_have_prev = false;
    // small memo of lat_to_y_with_tan() / ref_y() by fixed-point latitude (consecutive walks ask for v+1 and then v again;
    // longitude walks ask for the same latitude every time)
    int64_t m_cv[2] = {INT64_MIN, INT64_MIN};
    double m_cy[2] = {0, 0};
    int64_t m_rv = INT64_MIN;
    long double m_ry = 0;

    std::string spec(int64_t a, int64_t b) const {
        return std::string(m_ax == LAT ? "lat:" : "lon:") + std::to_string(m_other) + ":" + std::to_string(a) + ":" + std::to_string(b);
    }
    std::string where(int64_t v) const {
        char buf[120];
        if (m_ax == LAT) snprintf(buf, sizeof buf, "Location(lon=%.7f, lat=%.7f)", m_other / 1e7, v / 1e7);
        else snprintf(buf, sizeof buf, "Location(lon=%.7f, lat=%.7f)", v / 1e7, m_other / 1e7);
        return buf;
    }
    double tan_y(int64_t lat) {
        if (lat == m_cv[0]) return m_cy[0];
        if (lat == m_cv[1]) return m_cy[1];
        const double y = og::detail::lat_to_y_with_tan(osmium::Location::fix_to_double(static_cast<int32_t>(lat)));
        const int victim = (m_cv[0] <= m_cv[1]) ? 0 : 1;   // overwrite the smaller latitude (walks go north)
        m_cv[victim] = lat; m_cy[victim] = y;
        return y;
    }
    long double memo_ref_y(int64_t lat) {
        if (lat != m_rv) { m_rv = lat; m_ry = ref_y(lat); }
        return m_ry;
    }

    // oracle on the tiles of one constructor family at one point: range, finer-inside-coarser, containment
    void tile_point_oracle(const Pt& p, const uint32_t* t, const uint32_t* zfield, const char* ctor, bool inside_square, const RefPos& refpos) {
        uint32_t bad_range = 0, bad_hier = 0, bad_ref = 0;
        for (int z = 0; z < NZ; ++z) {
            // (4a) 0 <= number < 2^zoom, zoom field as given
            if (t[z] >= (1u << z) || zfield[z] != static_cast<uint32_t>(z)) bad_range |= 1u << z;
            // (4c) the tile of the finer zoom lies inside the tile of the coarser zoom
            if (z > 0 && (t[z] >> 1) != t[z - 1]) bad_hier |= 1u << z;
            // (anchor) inside the Web-Mercator square the tile contains the location (to within TOL_M)
            if (inside_square) {
                int64_t lo, hi;
                ref_tile(z, refpos, lo, hi);
                if (static_cast<int64_t>(t[z]) < lo || static_cast<int64_t>(t[z]) > hi) bad_ref |= 1u << z;
            }
        }
        const char* axn = m_ax == LAT ? "y" : "x";
        const std::string reg = region(m_ax, p.v);
        if (bad_range) {
            int z = __builtin_ctz(bad_range);
            V.report(std::string("tile/") + axn + "-out-of-range/" + reg + "/zoom=" + zoom_ranges(bad_range) + ctor,
                     "Tile(zoom, " + where(p.v) + ") has " + axn + "=" + std::to_string(t[z]) + " z=" + std::to_string(zfield[z]) + " at zoom " + std::to_string(z) + " (2^zoom=" + std::to_string(1u << z) + ")", spec(p.v, p.v));
        }
        if (bad_hier) {
            int z = __builtin_ctz(bad_hier);
            V.report(std::string("tile/") + axn + "-finer-not-inside-coarser/" + reg + "/zoom=" + zoom_ranges(bad_hier) + ctor,
                     "Tile(zoom, " + where(p.v) + "): " + axn + "=" + std::to_string(t[z]) + " at zoom " + std::to_string(z) + " but " + std::to_string(t[z - 1]) + " at zoom " + std::to_string(z - 1) + " (failing zooms " + zoom_list(bad_hier) + ")", spec(p.v, p.v));
        }
        if (bad_ref) {
            int z = 31 - __builtin_clz(bad_ref);
            int64_t lo, hi;
            ref_tile(z, refpos, lo, hi);
            V.report(std::string("tile/") + axn + "-not-containing-location/" + reg + ctor,
                     "Tile(zoom, " + where(p.v) + "): " + axn + "=" + std::to_string(t[z]) + " at zoom " + std::to_string(z) + " (failing zooms " + zoom_list(bad_ref) + "), the tile containing the point is " + std::to_string(lo) + (hi != lo ? ".." + std::to_string(hi) : ""), spec(p.v, p.v));
        }
    }

    // oracle on the tiles between two points a < b (b is further north / east)
    void tile_pair_oracle(const Pt& a, const uint32_t* ta, const Pt& b, const uint32_t* tb, const char* ctor) {
        uint32_t bad = 0;
        for (int z = 0; z < NZ; ++z) {
            // (4b) y never decreases moving south (= never increases moving north); x never decreases moving east
            if (m_ax == LAT ? tb[z] > ta[z] : tb[z] < ta[z]) bad |= 1u << z;
        }
        if (!bad) return;
        int z = 31 - __builtin_clz(bad);
        if (m_ax == LAT) {
            const double q = (og::detail::max_coordinate_epsg3857 - a.m) / og::tile_extent_in_zoom(z);
            V.report("tile/y-decreases-going-south/" + lat_region(a.v) + "/zoom=" + zoom_ranges(bad) + ctor,
                     "at zoom " + std::to_string(z) + " Tile(" + where(b.v) + ").y=" + std::to_string(tb[z]) + " but further south Tile(" + where(a.v) + ").y=" + std::to_string(ta[z]) +
                     fmt(" (projected y=%.10g, (20037508.34-y)/tile_extent=%.10g", a.m, q) + (q >= -2147483649.0 && q < 2147483648.0 ? ")" : " does not fit the int32_t it is converted to before clamping)"), spec(a.v, b.v));
        } else {
            V.report("tile/x-decreases-going-east/" + lon_region(b.v) + "/zoom=" + zoom_ranges(bad) + ctor,
                     "at zoom " + std::to_string(z) + " Tile(" + where(a.v) + ").x=" + std::to_string(ta[z]) + " but further east Tile(" + where(b.v) + ").x=" + std::to_string(tb[z]), spec(a.v, b.v));
        }
    }

public:
    Walker(Axis ax, int32_t other) : m_ax(ax), m_other(other) { memset(m_prev.t, 0, sizeof m_prev.t); }

    // observe_only: the point belongs to the neighbouring shard; it only serves as predecessor here
    void step(int64_t v, bool observe_only = false) {
        const osmium::Location loc = m_ax == LAT ? osmium::Location{m_other, static_cast<int32_t>(v)} : osmium::Location{static_cast<int32_t>(v), m_other};
        const int64_t latv = loc.y(), lonv = loc.x();
        Pt p;
        p.v = v;
        // ---- the library under test ----
        const og::Coordinates c = og::lonlat_to_mercator(loc);            // Coordinates(Location) -> projection
        const og::Coordinates cf = og::MercatorProjection{}(loc);         // functor entry point
        p.m = m_ax == LAT ? c.y : c.x;
        uint32_t t2[NZ], zf[NZ], zf2[NZ];                                 // Tile(zoom, Coordinates), z fields
        bool ctors_agree = true;
        for (int z = 0; z < NZ; ++z) {
            const og::Tile tl{static_cast<uint32_t>(z), loc};
            const og::Tile tc{static_cast<uint32_t>(z), c};
            p.t[z] = m_ax == LAT ? tl.y : tl.x;
            t2[z] = m_ax == LAT ? tc.y : tc.x;
            zf[z] = tl.z; zf2[z] = tc.z;
            if (tl != tc) ctors_agree = false;
        }
        auto point_oracles = [&]() {
            ++S.evaluations;
            S.tile_evaluations += 2 * NZ;
            const bool inside_square = latv >= -SQUARE && latv <= SQUARE;
            // ---- (0) a projected coordinate is a number
            if (std::isnan(c.x) || std::isnan(c.y) || std::isnan(cf.x) || std::isnan(cf.y)) {
                V.report("mercator/projection-is-nan/" + region(m_ax, v), "lonlat_to_mercator(" + where(v) + fmt(") = (%.17g, %.17g)", c.x, c.y), spec(v, v));
                return;
            }
            if (!std::isfinite(p.m)) ++S.nonfinite_projection;   // lat=-90 -> -inf with the tangent formula: unspecified by the property, counted
            // ---- (1) fast latitude formula vs the library's canonical tangent formula (both entry points)
            const double ys[2] = {c.y, cf.y};
            const int nsrc = (memcmp(&c, &cf, sizeof c) == 0) ? 1 : 2;
            if (nsrc == 2) ++S.functor_differs;
            const double yt = tan_y(latv);
            for (int s = 0; s < nsrc; ++s) {
                const double yf = ys[s];
                if (memcmp(&yf, &yt, sizeof yf) == 0) { if (s == 0) ++S.tan_path; continue; }   // same bits (includes -inf at the pole): distance 0
                if (s == 0) ++S.fast_path;
                const double diff = std::fabs(yf - yt);
                // local coordinate step of the canonical formula: to the next fixed-point latitude (to the previous one at +90)
                double step;
                if (latv < LATMAX) step = tan_y(latv + 1) - yt;
                else step = yt - tan_y(latv - 1);
                const char* ep = s == 0 ? "" : "/entry=MercatorProjection";
                if (!(diff <= 0.01))
                    V.report("mercator/fast-vs-tan/exceeds-1cm/region=" + lat_region(latv) + ep, fmt("lat=%.7f: lat_to_y=%.10f lat_to_y_with_tan=%.10f differ by %.6g m", latv / 1e7, yf, yt, diff), spec(v, v));
                else if (!(diff <= step / 4))
                    V.report("mercator/fast-vs-tan/exceeds-quarter-step/region=" + lat_region(latv) + ep, fmt("lat=%.7f: |lat_to_y - lat_to_y_with_tan| = %.6g m, local step of the tangent formula = %.6g m", latv / 1e7, diff, step), spec(v, v));
                else {
                    if (diff > max_abs_diff) max_abs_diff = diff;
                    if (diff / step > max_step_ratio) max_step_ratio = diff / step;
                }
            }
            // ---- (anchor) inside the square both coordinates are within 1 cm (+1 um) of the long double reference
            const long double rx = ref_x(lonv);
            long double ry = 0;
            {
                if (!(std::fabs(static_cast<long double>(c.x) - rx) <= 0.010001L))
                    V.report("mercator/x-differs-from-reference/" + lon_region(lonv), "lonlat_to_mercator(" + where(v) + fmt(").x = %.10f, spherical Mercator gives %.10f", c.x, static_cast<double>(rx)), spec(v, v));
                if (inside_square) {
                    ry = memo_ref_y(latv);
                    ++S.ref_checked;
                    if (!(std::fabs(static_cast<long double>(c.y) - ry) <= 0.010001L))
                        V.report("mercator/y-differs-from-reference/" + lat_region(latv), "lonlat_to_mercator(" + where(v) + fmt(").y = %.10f, spherical Mercator gives %.10f", c.y, static_cast<double>(ry)), spec(v, v));
                } else ++S.outside_square;
            }
            // ---- (3) back-projection recovers the fixed-point coordinates after rounding
            for (int s = 0; s < nsrc; ++s) {
                const og::Coordinates back = og::mercator_to_lonlat(s == 0 ? c : cf);
                const bool nan = std::isnan(back.x) || std::isnan(back.y);
                const osmium::Location r = nan ? osmium::Location{} : osmium::Location{back.x, back.y};   // Location's own rounding
                const char* ep = s == 0 ? "" : "/entry=MercatorProjection";
                if (nan || r.y() != latv)
                    V.report("mercator/roundtrip/lat-not-recovered/" + lat_region(latv) + ep, where(v) + fmt(" -> y=%.17g -> lat=%.17g", s == 0 ? c.y : cf.y, back.y), spec(v, v));
                if (nan || r.x() != lonv)
                    V.report("mercator/roundtrip/lon-not-recovered/" + lon_region(lonv) + ep, where(v) + fmt(" -> x=%.17g -> lon=%.17g", s == 0 ? c.x : cf.x, back.x), spec(v, v));
            }
            // ---- (4) tiles, single point
            const RefPos refpos(m_ax == LAT ? HALF - ry : rx + HALF);
            const bool ref_ok = m_ax == LAT ? inside_square : true;
            tile_point_oracle(p, p.t, zf, "", ref_ok, refpos);
            if (!ctors_agree) { ++S.ctor_differs; tile_point_oracle(p, t2, zf2, "/ctor=Coordinates", ref_ok, refpos); }
            // diversity: did the clamp engage / would the int32 conversion overflow at some zoom
            {
                const double q30 = m_ax == LAT ? (og::detail::max_coordinate_epsg3857 - p.m) / og::tile_extent_in_zoom(30)
                                               : (p.m + og::detail::max_coordinate_epsg3857) / og::tile_extent_in_zoom(30);
                if (!(q30 >= 0 && q30 < 1073741824.0)) ++S.clamp_engaged;
                if (!(q30 > -2147483649.0 && q30 < 2147483648.0)) ++S.cast_out_of_int32;
                if ((S.evaluations & 0xfff) == 1 || v == 0 || v == -LATMAX || v == LATMAX || v == -LONMAX || v == LONMAX)
                    outcome_set.insert(region(m_ax, v) + (p.t[30] == 0 ? ":first-tile@z30" : p.t[30] == (1u << 30) - 1 ? ":last-tile@z30" : ":interior-tile@z30"));
            }
        };
        if (!observe_only) point_oracles();
        // ---- pair oracles against the previous (smaller) value
        if (m_have_prev && !observe_only) {
            const Pt& a = m_prev;
            ++S.pairs;
            if (p.v == a.v + 1) ++S.consecutive_pairs;
            // (2) strictly increasing projected coordinate
            if (!(p.m > a.m))
                V.report(std::string("mercator/") + (m_ax == LAT ? "y" : "x") + "-not-strictly-increasing/" + pair_region(m_ax, a.v, p.v),
                         where(a.v) + fmt(" projects to %.17g, ", a.m) + where(p.v) + fmt(" to %.17g", p.m), spec(a.v, p.v));
            tile_pair_oracle(a, a.t, p, p.t, "");
            const bool crossed = a.t[30] != p.t[30];
            if (crossed) ++S.tile_boundary_crossed;
            if (crossed || (m_ax == LAT && on_fast_path(v))) ++S.nontrivial;
        } else if (!observe_only) {
            if (m_ax == LAT && on_fast_path(v)) ++S.nontrivial;
        }
        if (!ctors_agree && m_have_prev && !observe_only) {
            // Tile(zoom, Coordinates) walked separately only when it ever differs (keeps the hot path small):
            // recompute the predecessor's tiles through that constructor
            Pt a = m_prev; uint32_t ta[NZ];
            const osmium::Location la = m_ax == LAT ? osmium::Location{m_other, static_cast<int32_t>(a.v)} : osmium::Location{static_cast<int32_t>(a.v), m_other};
            const og::Coordinates ca = og::lonlat_to_mercator(la);
            for (int z = 0; z < NZ; ++z) { const og::Tile tc{static_cast<uint32_t>(z), ca}; ta[z] = m_ax == LAT ? tc.y : tc.x; }
            tile_pair_oracle(a, ta, p, t2, "/ctor=Coordinates");
        }
        m_prev = p;
        m_have_prev = true;
    }

    const Pt& last() const { return m_prev; }
};

// ------------------------------------------------------------------------------------------------
// Sweep lo..hi with a stride (hi itself is always the last point), split into contiguous pieces per
// shard which overlap by one point. Returns false if the deadline stopped it.
static bool sweep(const Args& a, Axis ax, int64_t lo, int64_t hi, int64_t stride, int32_t other, benum::Sampler* smp = nullptr) {
    const uint64_t span = static_cast<uint64_t>(hi - lo);
    const uint64_t n = span / stride + 1 + (span % stride ? 1 : 0);
    const uint64_t ib = n * a.shard / a.nshards, ie = n * (a.shard + 1) / a.nshards;
    if (ib >= ie) return true;
    Walker w(ax, other);
    auto value = [&](uint64_t i) { return std::min<int64_t>(lo + static_cast<int64_t>(i) * stride, hi); };
    if (ib > 0) w.step(value(ib - 1), true);
    for (uint64_t i = ib; i < ie; ++i) {
        if ((i & 0x3ffff) == 0 && a.expired()) return false;
        w.step(value(i));
        if (smp && smp->want(i)) {
            const Pt& p = w.last();
            char buf[300];
            snprintf(buf, sizeof buf, "%s=%.7f (other axis %.7f): projected %.6f, tile %s at zoom 0/1/12/29/30 = %u/%u/%u/%u/%u", ax == LAT ? "lat" : "lon", p.v / 1e7, other / 1e7, p.m,
                     ax == LAT ? "y" : "x", p.t[0], p.t[1], p.t[12], p.t[29], p.t[30]);
            benum::sample(buf);
        }
    }
    return true;
}

static std::vector<int64_t> special(Axis ax) {
    if (ax == LAT) return {-LATMAX, -SQUARE, -780000000, 0, 780000000, SQUARE, LATMAX};
    return {-LONMAX, -900000000, 0, 900000000, LONMAX};
}

static const int32_t LAT_SWEEP_LON = 71234567;      // longitude held fixed while walking latitudes ( 7.1234567)
static const int32_t LON_SWEEP_LAT = 471234567;     // latitude held fixed while walking longitudes (47.1234567)

static void part_axis(const Args& a, Axis ax) {
    const int64_t M = ax == LAT ? LATMAX : LONMAX;
    const int32_t other = ax == LAT ? LAT_SWEEP_LON : LON_SWEEP_LAT;
    const char* name = ax == LAT ? "latitude" : "longitude";
    const int64_t radius = 10000;
    benum::Sampler smp(a.seed + a.shard, a.shard % 2 == 0 ? 1 : 0, 100003);   // <= 8 samples per axis
    bool ok = true;
    for (int64_t c : special(ax)) {
        if (!ok) break;
        ok = sweep(a, ax, std::max(-M, c - radius), std::min(M, c + radius), 1, other, nullptr);
    }
    benum::bound(std::string(name) + ": every fixed-point value within +-10000 steps of " + (ax == LAT ? "-90, -85.0511288, -78, 0, 78, 85.0511288, 90" : "-180, -90, 0, 90, 180") + " degrees x zoom 0..30", ok);
    const int64_t stride = ax == LAT ? 37 : 97;
    if (ok) ok = sweep(a, ax, -M, M, stride, other, &smp);
    benum::bound(std::string(name) + ": every " + std::to_string(stride) + "th fixed-point value of the whole axis x zoom 0..30", ok);
    if (a.thorough && ax == LAT) {
        if (ok) ok = sweep(a, ax, -M, M, 1, other, nullptr);
        benum::bound(std::string(name) + ": every fixed-point value of the whole axis (" + std::to_string(2 * M + 1) + " values, consecutive pairs) x zoom 0..30", ok);
    }
    if (a.thorough && ax == LON) {   // x is linear in the longitude: a dense grid + long consecutive runs at the special values
        for (int64_t c : special(ax)) {
            if (!ok) break;
            ok = sweep(a, ax, std::max(-M, c - 1000000), std::min(M, c + 1000000), 1, other, nullptr);
        }
        benum::bound(std::string(name) + ": every fixed-point value within +-1000000 steps of -180, -90, 0, 90, 180 degrees x zoom 0..30", ok);
        if (ok) ok = sweep(a, ax, -M, M, 11, other, nullptr);
        benum::bound(std::string(name) + ": every 11th fixed-point value of the whole axis x zoom 0..30", ok);
    }
}

// grid: tile x must not decrease going east along every row, tile y must not decrease going south in every column
static void part_grid(const Args& a) {
    auto axis_values = [](Axis ax) {
        const int64_t M = ax == LAT ? LATMAX : LONMAX;
        std::vector<int64_t> v;
        std::vector<int64_t> centres = special(ax);
        if (ax == LAT) { centres.push_back(-899907000); centres.push_back(899907000); }   // where (max-y)/extent(30) passes 2^31
        for (int64_t c : centres) for (int64_t d : {0, 1, 2, 3, 10, 100, 1000, 100000}) for (int sgn : {-1, 1}) { int64_t x = c + sgn * d; if (x >= -M && x <= M) v.push_back(x); }
        for (int64_t x = -M; x <= M; x += 5000000) v.push_back(x);          // every half degree
        std::sort(v.begin(), v.end()); v.erase(std::unique(v.begin(), v.end()), v.end());
        return v;
    };
    const std::vector<int64_t> lats = axis_values(LAT), lons = axis_values(LON);
    bool ok = true;
    uint64_t rank = 0;
    for (size_t i = 0; i < lons.size() && ok; ++i) {             // columns: walk north at a fixed longitude
        if (!a.mine(rank++)) continue;
        if (a.expired()) { ok = false; break; }
        Walker w(LAT, static_cast<int32_t>(lons[i]));
        for (int64_t v : lats) w.step(v);
    }
    for (size_t i = 0; i < lats.size() && ok; ++i) {             // rows: walk east at a fixed latitude
        if (!a.mine(rank++)) continue;
        if (a.expired()) { ok = false; break; }
        Walker w(LON, static_cast<int32_t>(lats[i]));
        for (int64_t v : lons) w.step(v);
    }
    benum::bound("grid: " + std::to_string(lons.size()) + " longitudes x " + std::to_string(lats.size()) + " latitudes (every half degree + values at distance 0,1,2,3,10,100,1000,100000 steps from every special value), "
                 "walked along every row and every column x zoom 0..30", ok);
    if (a.shard == 0) benum::sample("grid corner: Tile(30, Location(180, 90)), Tile(30, Location(-180, -90)), Tile(z, Location(0, -89.9907)) ... every row and column of the grid");
}

static void replay(const std::string& spec) {
    // "<lat|lon>:<other>:<v0>:<v1>"
    char ax[8]; long long other, v0, v1;
    if (sscanf(spec.c_str(), "%3[a-z]:%lld:%lld:%lld", ax, &other, &v0, &v1) != 4) { fprintf(stderr, "bad spec\n"); exit(2); }
    Walker w(strcmp(ax, "lat") == 0 ? LAT : LON, static_cast<int32_t>(other));
    // a short run-up of the neighbouring values in sweep order first: a failure that depends on the calls made just before (state
    // kept between calls by the code under test) reproduces only with them
    const long long lo = strcmp(ax, "lat") == 0 ? -900000000LL : -1800000000LL;
    for (long long k = v0 - 3; k < v0; ++k) if (k >= lo) w.step(k);
    w.step(v0);
    if (v1 != v0) w.step(v1);
}

int main(int argc, char** argv) {
    Args a = benum::parse_args(argc, argv);
    if (a.replay) { replay(a.replay_spec); return 0; }
    std::string part = a.rest.size() >= 2 && a.rest[0] == "--part" ? a.rest[1] : "";
    if (part == "lat") part_axis(a, LAT);
    else if (part == "lon") part_axis(a, LON);
    else if (part == "grid") part_grid(a);
    else { fprintf(stderr, "unknown part\n"); return 2; }
    C["evaluations"] = S.evaluations;
    C["distinct_nontrivial"] = S.nontrivial;
    C["tile_evaluations"] = S.tile_evaluations;
    C["lat_on_fast_path"] = S.fast_path;
    C["lat_on_tan_path"] = S.tan_path;
    C["points_outside_mercator_square"] = S.outside_square;
    C["points_checked_against_long_double_reference"] = S.ref_checked;
    C["points_where_clamp_engaged_at_zoom30"] = S.clamp_engaged;
    C["points_where_int32_conversion_out_of_range_at_zoom30"] = S.cast_out_of_int32;
    C["nonfinite_projection_unspecified"] = S.nonfinite_projection;
    C["pairs_compared"] = S.pairs;
    C["consecutive_fixed_point_pairs_compared"] = S.consecutive_pairs;
    C["pairs_crossing_a_zoom30_tile_boundary"] = S.tile_boundary_crossed;
    C["functor_differs_from_function"] = S.functor_differs;
    C["tile_ctors_differ"] = S.ctor_differs;
    if (V.suppressed) C["violations_in_further_classes_not_listed"] = V.suppressed;
    C.emit();
    benum::maxv("max_fast_vs_tan_micrometres", static_cast<uint64_t>(max_abs_diff * 1e6));
    benum::maxv("max_fast_vs_tan_permille_of_local_step", static_cast<uint64_t>(max_step_ratio * 1000));
    for (const auto& s : outcome_set) benum::setv("region_x_zoom30_tile_class", s);
    return 0;
}
