"""OSM XML encoder for C02, written from the format description (wiki.openstreetmap.org/wiki/OSM_XML, /OsmChange and
the XML 1.0 recommendation) - NOT from libosmium.

    encode(dataset, choices) -> bytes       .osm / .osc / .osh file
    expect(dataset, choices) -> (multi, options, boxes)
    suffix(dataset, choices) -> file name suffix
    DIMS                                    [(choice, [menu])], first = default
    TRI                                     {choice: set(values)} values that are legal XML but outside what the OSM XML
                                            description promises (tri-state: counted, never alarmed)

Choices
    root      osm | osmChange          osmChange: every object inside <create> (version 1), <modify> or <delete> (invisible)
    sections  runs | each              osmChange: one section per run of equal actions / one per object
    decl      std | none | bom | double | standalone | doctype(tri)   XML declaration variants (bom: UTF-8 byte order mark
                                       first; doctype: a document type declaration without internal subset)
    attrs     canonical | reversed | rot3 | idlast | sorted | perm:<p>   attribute order of every element
    quote     double | single | mixed
    escape    min | named | dec | hex | allhex    min: only what XML demands; named: all five predefined entities;
                                       dec/hex: numeric references for everything that is not a letter or digit;
                                       allhex: every character as &#x..;
    space     pretty | compact | wide | crlf | tabs
    empty     selfclose | pair         <node .../> vs <node ...></node> for elements without children
    children  refs_first | tags_first | interleaved(tri)   order of nd/member and tag children
    optattrs  full | sparse            sparse: attributes whose value is the reader-side default are left out
    visible   auto | always            visible attribute only where needed / on every object
    bounds    one | none | two | legacy   <bounds> elements (legacy: the old <bound box=.../>, which readers ignore)
    extras    none | comments | elements | attrs    XML comments + processing instruction / unknown elements (<note>,
                                       <meta>, <remark>) / unknown attributes everywhere
    coords    min | pad7 | pad11       coordinate text: shortest / 7 decimals / 11 decimals (zero padded)
    encoding  utf8 | ascii(tri) | latin1(tri) | utf16(tri)
"""
import itertools

from model import NotEncodable, iso

DIMS = [
    ("root", ["osm", "osmChange"]),
    ("sections", ["runs", "each"]),
    ("decl", ["std", "none", "bom", "double", "standalone", "doctype"]),
    ("attrs", ["canonical", "reversed", "rot3", "idlast", "sorted"]),
    ("quote", ["double", "single", "mixed"]),
    ("escape", ["min", "named", "dec", "hex", "allhex"]),
    ("space", ["pretty", "compact", "wide", "crlf", "tabs"]),
    ("empty", ["selfclose", "pair"]),
    ("children", ["refs_first", "tags_first", "interleaved"]),
    ("optattrs", ["full", "sparse"]),
    ("visible", ["auto", "always"]),
    ("bounds", ["one", "none", "two", "legacy"]),
    ("extras", ["none", "comments", "elements", "attrs"]),
    ("coords", ["min", "pad7", "pad11"]),
    ("encoding", ["utf8", "ascii", "latin1", "utf16"]),
]
DEFAULTS = {k: v[0] for k, v in DIMS}
TRI = {"children": {"interleaved"}, "encoding": {"ascii", "latin1", "utf16"}, "decl": {"doctype"}}


def resolve(choices):
    c = dict(DEFAULTS)
    if choices:
        for k, v in choices.items():
            if k not in c:
                raise KeyError("unknown xml choice " + k)
            c[k] = v
    return c


def coord(v, mode):
    """exact decimal text of a fixed-point 1e-7 coordinate"""
    neg = v < 0
    a = -v if neg else v
    ip, fp = divmod(a, 10000000)
    f = "%07d" % fp
    if mode == "min":
        f = f.rstrip("0")
    elif mode == "pad11":
        f += "0000"
    return ("-" if neg else "") + str(ip) + ("." + f if f else "")


class _Ctx:
    def __init__(self, c):
        self.c = c
        self.n = 0        # running counter for the `mixed` quote choice

    def text(self, s, quote):
        """escape s for use inside an attribute value delimited by `quote`"""
        mode = self.c["escape"]
        ascii_only = self.c["encoding"] == "ascii"
        out = []
        for ch in s:
            o = ord(ch)
            if o < 0x20 and ch not in "\t\n\r":
                raise NotEncodable("XML 1.0 cannot carry U+%04X" % o)
            if o in (0xfffe, 0xffff):
                raise NotEncodable("XML 1.0 cannot carry U+%04X" % o)
            if mode == "allhex":
                out.append("&#x%x;" % o)
            elif ch in "\t\n\r":
                out.append("&#%d;" % o if mode != "hex" else "&#x%X;" % o)   # literal ones would be normalised to spaces
            elif ch == "<":
                out.append("&lt;" if mode in ("min", "named") else ("&#60;" if mode == "dec" else "&#x3c;"))
            elif ch == "&":
                out.append("&amp;" if mode in ("min", "named") else ("&#38;" if mode == "dec" else "&#x26;"))
            elif ch == quote:
                out.append(("&quot;" if ch == '"' else "&apos;") if mode in ("min", "named") else ("&#%d;" % o if mode == "dec" else "&#x%x;" % o))
            elif ch == ">":
                out.append("&gt;" if mode == "named" else (">" if mode == "min" else ("&#62;" if mode == "dec" else "&#x3E;")))
            elif ch in "\"'":
                out.append(("&quot;" if ch == '"' else "&apos;") if mode == "named" else (ch if mode == "min" else ("&#%d;" % o if mode == "dec" else "&#x%x;" % o)))
            elif mode in ("dec", "hex") and not ch.isalnum():
                out.append("&#%d;" % o if mode == "dec" else "&#x%x;" % o)
            elif ascii_only and o > 0x7e:
                out.append("&#x%x;" % o)
            else:
                out.append(ch)
        return "".join(out)

    def attr(self, name, value):
        q = self.c["quote"]
        self.n += 1
        quote = '"' if q == "double" or (q == "mixed" and self.n % 2) else "'"
        eq = " = " if self.c["space"] == "wide" else "="
        return name + eq + quote + self.text(value, quote) + quote

    def order(self, attrs):
        """attrs: list of (name, value) in canonical order"""
        m = self.c["attrs"]
        if m == "reversed":
            attrs = attrs[::-1]
        elif m == "rot3":
            k = 3 % len(attrs) if attrs else 0
            attrs = attrs[k:] + attrs[:k]
        elif m == "idlast":
            attrs = attrs[1:] + attrs[:1]
        elif m == "sorted":
            attrs = sorted(attrs)
        elif m.startswith("perm:"):
            # the p-th permutation (lexicographic rank, factorial number system) of the attribute list
            p = int(m[5:])
            items, out = list(attrs), []
            for i in range(len(items), 0, -1):
                f = 1
                for k in range(2, i):
                    f *= k
                q, p = divmod(p, f)
                out.append(items.pop(q % len(items)))
            attrs = out
        return attrs

    def element(self, name, attrs, children=None, indent=1):
        sp = self.c["space"]
        attrs = self.order(attrs)
        sep = "  " if sp == "wide" else " "
        s = "<" + name + "".join(sep + self.attr(k, v) for k, v in attrs)
        if sp == "wide":
            s += " "
        if children:
            s += ">" + self.nl() + "".join(self.ind(indent + 1) + ch + self.nl() for ch in children) + self.ind(indent) + "</" + name + (" >" if sp == "wide" else ">")
        elif self.c["empty"] == "pair":
            s += "></" + name + ">"
        else:
            s += "/>"
        return s

    def nl(self):
        sp = self.c["space"]
        return "" if sp == "compact" else ("\r\n" if sp == "crlf" else "\n")

    def ind(self, level):
        sp = self.c["space"]
        if sp == "compact":
            return ""
        return ("\t" if sp == "tabs" else "  ") * level


_TYPENAME = {"n": "node", "w": "way", "r": "relation"}


def _object(x, o, c, level, in_delete):
    sparse = c["optattrs"] == "sparse"
    vis = o.get("visible", True)
    a = [("id", str(o["id"]))]
    if o["version"] or not sparse:
        a.append(("version", str(o["version"])))
    if o["timestamp"]:
        a.append(("timestamp", iso(o["timestamp"])))
    elif not sparse:
        a.append(("timestamp", "1970-01-01T00:00:00Z"))
    if o["uid"] or not sparse:
        a.append(("uid", str(o["uid"])))
    if o["user"] or not sparse:
        a.append(("user", o["user"]))
    if o["changeset"] or not sparse:
        a.append(("changeset", str(o["changeset"])))
    if c["visible"] == "always" or (not vis and not in_delete):
        a.append(("visible", "true" if vis else "false"))
    if o["type"] == "n" and vis and o["lon"] is not None:
        a += [("lat", coord(o["lat"], c["coords"])), ("lon", coord(o["lon"], c["coords"]))]
    if c["extras"] == "attrs":
        a += [("action", "modify"), ("extra", "unknown <attribute>")]
    tags = [x.element("tag", [("k", k), ("v", v)]) for k, v in o["tags"]]
    refs = []
    if o["type"] == "w":
        locs = o.get("reflocs") or [None] * len(o["refs"])
        for r, l in zip(o["refs"], locs):
            ra = [("ref", str(r))]
            if l is not None:
                ra += [("lat", coord(l[1], c["coords"])), ("lon", coord(l[0], c["coords"]))]
            refs.append(x.element("nd", ra))
    elif o["type"] == "r":
        refs = [x.element("member", [("type", _TYPENAME[t]), ("ref", str(r)), ("role", role)]) for t, r, role in o["members"]]
    if c["children"] == "tags_first":
        ch = tags + refs
    elif c["children"] == "interleaved":
        ch = [v for pair in itertools.zip_longest(refs, tags) for v in pair if v is not None]
    else:
        ch = refs + tags
    if c["extras"] == "elements" and o["type"] in "wr":
        ch.insert(0, x.element("bounds", [("minlat", "1"), ("minlon", "2"), ("maxlat", "3"), ("maxlon", "4")]))   # Overpass "out bb"
    return x.element(_TYPENAME[o["type"]], a, ch, level)


def _changeset(x, o, c, level):
    sparse = c["optattrs"] == "sparse"
    a = [("id", str(o["id"]))]
    if o.get("created"):
        a.append(("created_at", iso(o["created"])))
    if o.get("closed"):
        a.append(("closed_at", iso(o["closed"])))
    a.append(("open", "false" if o.get("closed") else "true"))
    if o["uid"] or not sparse:
        a.append(("uid", str(o["uid"])))
    if o["user"] or not sparse:
        a.append(("user", o["user"]))
    if o.get("box"):
        x1, y1, x2, y2 = o["box"]
        a += [("min_lat", coord(y1, c["coords"])), ("min_lon", coord(x1, c["coords"])), ("max_lat", coord(y2, c["coords"])), ("max_lon", coord(x2, c["coords"]))]
    if o.get("num_changes") or not sparse:
        a.append(("num_changes", str(o.get("num_changes", 0))))
    if o.get("num_comments") or not sparse:
        a.append(("comments_count", str(o.get("num_comments", 0))))
    ch = [x.element("tag", [("k", k), ("v", v)]) for k, v in o["tags"]]
    if o.get("comments"):
        cs = []
        for d, uid, user, text in o["comments"]:
            body = x.text(text, "")      # element content: same escaping, no quote character to protect
            inner = "<text>" + body + "</text>"
            cs.append(x.element("comment", [("date", iso(d)), ("uid", str(uid)), ("user", user)], [inner], level + 2))
        disc = x.element("discussion", [], cs, level + 1)
        ch = ([disc] + ch) if c["children"] != "tags_first" else (ch + [disc])
    return x.element("changeset", a, ch, level)


def _action(o):
    if not o.get("visible", True):
        return "delete"
    return "create" if o["version"] == 1 else "modify"


def suffix(dataset, choices=None):
    c = resolve(choices)
    if c["root"] == "osmChange":
        return "osc"
    return "osh" if dataset.get("history") else "osm"


def expect(dataset, choices=None):
    c = resolve(choices)
    h = dataset.get("header", {})
    opts = {"version": "0.6"}
    if h.get("generator") and c["optattrs"] != "sparse":
        opts["generator"] = h["generator"]
    if c["extras"] == "attrs":
        opts["xml_josm_upload"] = "never"
    boxes = list(h.get("boxes", []))[:1]
    if c["bounds"] in ("none", "legacy"):
        boxes = []
    elif c["bounds"] == "two":
        boxes = boxes + [(-1800000000, -900000000, 1800000000, 900000000)]
    return c["root"] == "osmChange", opts, boxes


def encode(dataset, choices=None):
    c = resolve(choices)
    x = _Ctx(c)
    h = dataset.get("header", {})
    objs = dataset["objects"]
    if c["root"] == "osmChange" and any(o["type"] == "c" for o in objs):
        raise NotEncodable("change files carry nodes, ways and relations only")
    enc = {"utf8": "UTF-8", "ascii": "US-ASCII", "latin1": "ISO-8859-1", "utf16": "UTF-16"}[c["encoding"]]
    d = c["decl"]
    if d == "none" and c["encoding"] != "utf8":
        raise NotEncodable("without declaration the encoding is UTF-8")
    decl = {"std": "<?xml version='1.0' encoding='%s'?>" % enc, "none": "", "bom": "<?xml version='1.0' encoding='%s'?>" % enc,
            "double": '<?xml version="1.0" encoding="%s"?>' % enc,
            "standalone": "<?xml version='1.0' encoding='%s' standalone='yes'?>" % enc,
            "doctype": "<?xml version='1.0' encoding='%s'?>\n<!DOCTYPE %s>" % (enc, c["root"])}[d]
    out = []
    if decl:
        out.append(decl + x.nl())
    if c["extras"] == "comments":
        out.append("<!-- generated for C02, not by libosmium -->" + x.nl() + "<?verif instruction?>" + x.nl())
    ra = [("version", "0.6")]
    if h.get("generator") and c["optattrs"] != "sparse":
        ra.append(("generator", h["generator"]))
    if c["extras"] == "attrs":
        ra += [("upload", "never"), ("copyright", "OpenStreetMap and contributors"), ("license", "http://opendatacommons.org/licenses/odbl/1-0/")]
    body = []
    if c["extras"] == "elements":
        body.append(x.ind(1) + "<note>The data included in this document is from www.openstreetmap.org.</note>" + x.nl())
        body.append(x.ind(1) + x.element("meta", [("osm_base", "2015-01-01T00:00:00Z")]) + x.nl())
    if h.get("boxes") and c["bounds"] in ("one", "two"):
        x1, y1, x2, y2 = h["boxes"][0]
        body.append(x.ind(1) + x.element("bounds", [("minlat", coord(y1, c["coords"])), ("minlon", coord(x1, c["coords"])),
                                                    ("maxlat", coord(y2, c["coords"])), ("maxlon", coord(x2, c["coords"]))]) + x.nl())
        if c["bounds"] == "two":
            body.append(x.ind(1) + x.element("bounds", [("minlat", "-90"), ("minlon", "-180"), ("maxlat", "90"), ("maxlon", "180"), ("origin", "somewhere")]) + x.nl())
    elif c["bounds"] == "legacy":
        body.append(x.ind(1) + x.element("bound", [("box", "-1,-2,3,4"), ("origin", "http://www.openstreetmap.org/api/0.6")]) + x.nl())
    if c["root"] == "osmChange":
        groups = []
        for o in objs:
            act = _action(o)
            if groups and groups[-1][0] == act and c["sections"] == "runs":
                groups[-1][1].append(o)
            else:
                groups.append((act, [o]))
        for act, os_ in groups:
            inner = [_object(x, o, c, 2, act == "delete") for o in os_]
            body.append(x.ind(1) + x.element(act, [], inner, 1) + x.nl())
        if c["extras"] == "comments":
            body.append(x.ind(1) + "<!-- an empty section -->" + x.nl() + x.ind(1) + "<modify></modify>" + x.nl())
    else:
        for o in objs:
            if c["extras"] == "comments":
                body.append(x.ind(1) + "<!-- object -->" + x.nl())
            if o["type"] == "c":
                body.append(x.ind(1) + _changeset(x, o, c, 1) + x.nl())
            else:
                body.append(x.ind(1) + _object(x, o, c, 1, False) + x.nl())
    root = c["root"]
    ra = x.order(ra)
    sep = "  " if c["space"] == "wide" else " "
    open_tag = "<" + root + "".join(sep + x.attr(k, v) for k, v in ra) + ">"
    if not body and c["empty"] == "selfclose":
        out.append(open_tag[:-1] + "/>" + x.nl())
    else:
        out.append(open_tag + x.nl() + "".join(body) + "</" + root + ">" + x.nl())
    if c["extras"] == "comments":
        out.append("<!-- trailing comment -->" + x.nl())
    text = "".join(out)
    try:
        if c["encoding"] == "utf16":
            data = text.encode("utf-16")          # with BOM, native order
        else:
            data = text.encode({"utf8": "utf-8", "ascii": "ascii", "latin1": "latin-1"}[c["encoding"]])
    except UnicodeEncodeError:
        raise NotEncodable("text not representable in " + c["encoding"])
    if d == "bom":
        if c["encoding"] != "utf8":
            raise NotEncodable("BOM variant is UTF-8 only")
        data = b"\xef\xbb\xbf" + data
    return data
