#!/usr/bin/env python3
"""C02 generator: enumerates (data set x encoding choices), writes each file together with the canonical text of the
objects it denotes, and drives the minimisation of failing cases. Used by h02.cpp through pipes:

    gen.py enum --part P --tier quick|thorough --shard i/n [--skip K]      records on stdout
    gen.py serve                                                           commands on stdin, frames on stdout
    gen.py dump --part P --tier T --out DIR [--limit N]                    materialise the files for a human
    gen.py count --tier T                                                  plan sizes per part

frame := tag(4 bytes) u32 nfields { u32 len, bytes }*
    REC  spec, suffix, data, expected, meta("k=v;k=v": nt=0|1, tri=<class>|'', group=<id>)
    NENC spec, reason                     (serve only: the spec is not encodable)
    END  evaluated-plan-size, not-encodable, covered-values text
    KEY  class key, minimal spec, note    (serve only: end of a MIN conversation)
serve commands (one line each, tab separated):  ONE <spec> | MIN <spec> <kind> | SUB <spec> <kind> | RES <kind> | GROUP <spec> | QUIT

A *family* is a finite product space of named choices (dims) with a builder; a case is a family name plus the
non-default choices: "pbf|ds=basic|nodes=plain|granularity=7".  Every family has a deterministic plan per tier.
"""
import hashlib
import itertools
import json
import os
import struct
import sys

sys.dont_write_bytecode = True
import model  # noqa: E402
import enc_pbf  # noqa: E402
import enc_o5m  # noqa: E402
import enc_xml  # noqa: E402
import enc_opl  # noqa: E402
from model import NotEncodable  # noqa: E402

ENC = {"pbf": enc_pbf, "o5m": enc_o5m, "xml": enc_xml, "opl": enc_opl}


# ------------------------------------------------------------------------------------------------
# families

class Dim:
    def __init__(self, name, values, kind="enum", tri=()):
        self.name, self.values, self.kind = name, [str(v) for v in values], kind
        self.tri = set(str(v) for v in tri)
        self.default = self.values[0]
        self.classify = None      # range dims: value -> name of its equivalence class (or None: use the failing interval)


class Case:
    def __init__(self, data, suffix, expected, nt=True, tri="", group=""):
        self.data, self.suffix, self.expected, self.nt, self.tri, self.group = data, suffix, expected, nt, tri, group


class Family:
    name = fmt = ""
    dims = []

    def dim(self, name):
        for d in self.dims:
            if d.name == name:
                return d
        raise KeyError(name)

    def full(self, c):
        out = {d.name: d.default for d in self.dims}
        for k, v in c.items():
            if k not in out:
                raise KeyError("family %s has no choice %s" % (self.name, k))
            out[k] = str(v)
        return out

    def spec(self, c):
        c = self.full(c)
        return "|".join([self.name] + ["%s=%s" % (d.name, c[d.name]) for d in self.dims if c[d.name] != d.default])

    def build(self, c):
        raise NotImplementedError

    def plan(self, tier, shard=0, nshards=1):
        """the cases of this shard; special families enumerate duplicate-free rows with rows(tier)"""
        return itertools.islice(self.rows(tier), shard, None, nshards)


def parse_spec(spec):
    parts = spec.split("|")
    fam = FAMILIES[parts[0]]
    c = {}
    for p in parts[1:]:
        k, _, v = p.partition("=")
        c[k] = v
    return fam, c


# data sets whose content is (for this format) outside what the format description / the library's documented
# restrictions promise: counted as tri-state, never alarmed
TRI_DATA = {
    ("pbf", "cs_max"): "changeset-2^32-1", ("xml", "cs_max"): "changeset-2^32-1",
    ("opl", "outofrange"): "opl-location-outside-valid-range",
    ("xml", "id_max"): "xml-id-INT64_MAX",
}


def hdrsize_class(v):
    """class of a BlobHeader length by its 4-byte big-endian encoding: does one of the length bytes have the top bit set"""
    v = int(v)
    return "length-byte-with-top-bit-set" if (v & 0x80) or (v & 0x8000) else None


class Std(Family):
    """data set x every encoding choice of one format's spec-derived encoder"""

    def __init__(self, fmt, datasets):
        self.name = self.fmt = fmt
        self.enc = ENC[fmt]
        tri = getattr(self.enc, "TRI", {})
        self.dims = [Dim("ds", datasets), Dim("objs", ["all"])]
        for k, vals in self.enc.DIMS:
            self.dims.append(Dim(k, vals, tri=tri.get(k, ())))
        self.dim("objs").kind = "subset"
        if fmt == "pbf":
            self.dim("hdrsize").kind = "range"
            self.dim("hdrsize").lo, self.dim("hdrsize").hi = 0, 65535
            self.dim("hdrsize").classify = hdrsize_class
            self.dim("packed").tri = {"split"}

    def build(self, c):
        c = self.full(c)
        subset = None if c["objs"] == "all" else [int(x) for x in c["objs"].split(".") if x != ""]
        ds = model.dataset(c["ds"], subset)
        ch = {k: c[k] for k, _ in self.enc.DIMS}
        data = self.enc.encode(ds, ch)
        multi, opts, boxes = self.enc.expect(ds, ch)
        expected = model.dump(multi, opts, boxes, ds["objects"])
        tri = TRI_DATA.get((self.fmt, c["ds"]), "")
        for d in self.dims:
            if c[d.name] in d.tri:
                tri = tri or "%s-%s=%s" % (self.fmt, d.name, c[d.name])
        if self.fmt == "o5m" and enc_o5m.ambiguous(ds, ch):
            tri = tri or "o5m-shared-noderef-delta-counter"
        if self.fmt == "xml":
            suffix = enc_xml.suffix(ds, ch)
        elif self.fmt == "o5m":
            suffix = ch["filetype"]
        else:
            suffix = {"pbf": "osm.pbf", "opl": "osm.opl"}[self.fmt]
        nondefault = any(c[d.name] != d.default for d in self.dims if d.name not in ("ds", "objs"))
        return Case(data, suffix, expected, nt=bool(nondefault and ds["objects"]), tri=tri)

    def plan(self, tier, shard=0, nshards=1):
        return sharded(self, PLANS[self.fmt](self, tier), shard, nshards)


# ------------------------------------------------------------------------------------------------
# enumeration helpers (all deterministic)

class Product:
    """full product over the named dims (strict values only unless menus says otherwise), the others default/fixed.
    A product is a *region* of the choice space: rows of other sources that lie inside it are left to it."""

    def __init__(self, fam, names, fixed=None, menus=None):
        self.fam, self.names, self.fixed = fam, list(names), dict(fixed or {})
        self.vals = []
        for n in names:
            d = fam.dim(n)
            self.vals.append(list(menus[n]) if menus and n in menus else [v for v in d.values if v not in d.tri])
        self.allowed = {n: set(v) for n, v in zip(self.names, self.vals)}
        self.size = 1
        for v in self.vals:
            self.size *= len(v)

    def contains(self, c):
        """c: dict of non-default choices"""
        for k, v in c.items():
            if k in self.allowed:
                if v not in self.allowed[k]:
                    return False
            elif self.fixed.get(k) != v:
                return False
        for k, v in self.fixed.items():
            if k not in self.allowed and c.get(k, self.fam.dim(k).default) != v:
                return False
        for n in self.names:
            if self.fam.dim(n).default not in self.allowed[n] and n not in c:
                return False
        return True

    def rows(self, shard=0, nshards=1):
        defaults = [self.fam.dim(n).default for n in self.names]
        for combo in itertools.islice(itertools.product(*self.vals), shard, None, nshards):
            c = dict(self.fixed)
            for n, v, dv in zip(self.names, combo, defaults):
                if v != dv:
                    c[n] = v
                else:
                    c.pop(n, None)
            yield c


def product(fam, names, fixed=None, menus=None):
    return Product(fam, names, fixed, menus)


def ball(fam, radius, fixed=None, skip=("ds", "objs"), with_tri=True):
    """every choice vector that deviates from the default in at most `radius` dims"""
    dims = [d for d in fam.dims if d.name not in skip and len(d.values) > 1]
    yield dict(fixed or {})
    for r in range(1, radius + 1):
        for sub in itertools.combinations(dims, r):
            menus = [[v for v in d.values[1:] if with_tri or v not in d.tri] for d in sub]
            for combo in itertools.product(*menus):
                c = dict(fixed or {})
                for d, v in zip(sub, combo):
                    c[d.name] = v
                yield c


_cover_cache = {}
CACHE_DIR = os.environ.get("C02_DATA", "/verif/build/C02-data")


def covering(fam, t, skip=("ds", "objs"), menus=None):
    """greedy strength-t covering array over the strict values of all dims: every combination of values of every t
    dims occurs in at least one row. Deterministic (fixed iteration order, first-best tie break); the result is kept
    in a file under build/C02-data (keyed by the menus) because every shard needs the same array."""
    dims = [d for d in fam.dims if d.name not in skip]
    vals = [(menus[d.name] if menus and d.name in menus else [v for v in d.values if v not in d.tri]) for d in dims]
    dims = [d for d, v in zip(dims, vals) if len(v) > 1]
    vals = [v for v in vals if len(v) > 1]
    key = hashlib.sha1(repr((fam.name, t, [(d.name, d.default, v) for d, v in zip(dims, vals)], "v1")).encode()).hexdigest()[:16]
    if key in _cover_cache:
        return _cover_cache[key]
    path = os.path.join(CACHE_DIR, "cover-%s.json" % key)
    try:
        with open(path) as fh:
            _cover_cache[key] = json.load(fh)
            return _cover_cache[key]
    except (OSError, ValueError):
        pass
    n = len(dims)
    t = min(t, n)
    todo = {}
    order = []
    for cols in itertools.combinations(range(n), t):
        for combo in itertools.product(*[range(len(vals[c])) for c in cols]):
            todo[(cols, combo)] = True
            order.append((cols, combo))
    rows = []
    pos = 0
    while pos < len(order):
        if order[pos] not in todo:
            pos += 1
            continue
        cols, combo = order[pos]
        row = [None] * n
        for c, v in zip(cols, combo):
            row[c] = v
        for c in range(n):
            if row[c] is not None:
                continue
            fixed = [k for k in range(n) if row[k] is not None]
            best, bestv = -1, 0
            for v in range(len(vals[c])):
                gain = 0
                for sub in itertools.combinations(fixed, t - 1):
                    cs = tuple(sorted(sub + (c,)))
                    cb = tuple(v if k == c else row[k] for k in cs)
                    if (cs, cb) in todo:
                        gain += 1
                if gain > best:
                    best, bestv = gain, v
            row[c] = bestv
        for cs in itertools.combinations(range(n), t):
            todo.pop((cs, tuple(row[k] for k in cs)), None)
        rows.append({dims[k].name: vals[k][row[k]] for k in range(n) if vals[k][row[k]] != dims[k].default})
    # self-check: every t-tuple of values is covered
    assert not todo
    _cover_cache[key] = rows
    try:
        os.makedirs(CACHE_DIR, exist_ok=True)
        tmp = path + ".tmp%d" % os.getpid()
        with open(tmp, "w") as fh:
            json.dump(rows, fh)
        os.rename(tmp, path)
    except OSError:
        pass
    return rows


def with_fixed(rows, fixed):
    for r in rows:
        c = dict(r)
        c.update(fixed)
        yield c


def sharded(fam, sources, shard, nshards):
    """sources: iterables of rows (small; de-duplicated by case spec) and Product objects (regions). A row that lies
    inside a product is left to that product, a product row inside an earlier product to the earlier one - so every
    case of the plan occurs exactly once. Small rows are dealt to the shards round robin, product rows by their index."""
    products = [s for s in sources if isinstance(s, Product)]
    seen = set()
    i = 0
    for src in sources:
        if isinstance(src, Product):
            continue
        for c in src:
            c = {k: str(v) for k, v in c.items() if str(v) != fam.dim(k).default}
            if any(p.contains(c) for p in products):
                continue
            sp = fam.spec(c)
            if sp in seen:
                continue
            seen.add(sp)
            if i % nshards == shard:
                yield c
            i += 1
    for n, p in enumerate(products):
        for c in p.rows(shard, nshards):
            if not any(q.contains(c) for q in products[:n]):
                yield c


# ------------------------------------------------------------------------------------------------
# plans of the four standard families: lists of sources

PBF_CORE = ["nodes", "granularity", "offset", "date_granularity", "info", "grouping"]
PBF_BLOCK = ["nodes", "granularity", "offset", "date_granularity", "info", "order", "unknown", "defaults", "grouping", "stringtable",
             "empty", "dense_kv"]
PBF_FRAME = ["blob", "order", "unknown", "header"]
HDRSIZES_Q = [0, 64, 127, 128, 129, 255, 256, 257, 1000, 4095, 4096, 16383, 16384, 32767, 32768, 65535]
NOHP = ("ds", "objs", "hdrsize", "packed")


def plan_pbf(fam, tier):
    src = []
    good = ["basic", "history", "nometa", "anon", "mixed", "strings", "single_full"]
    for ds in good:
        src.append(ball(fam, 1, {"ds": ds}))
        src.append(with_fixed(covering(fam, 3, skip=NOHP), {"ds": ds}))
    for ds in ["extremes", "id_max", "long", "waylocs", "cs_max", "outofrange", "single", "empty"]:
        src.append(ball(fam, 2 if ds in ("extremes", "waylocs", "outofrange") else 1, {"ds": ds}))
    src.append(with_fixed(covering(fam, 2, skip=NOHP), {"ds": "many"}))
    src.append(with_fixed(covering(fam, 2, skip=NOHP), {"ds": "empty"}))
    # blob framing: BlobHeader sizes x blob kinds x message layout
    for h in HDRSIZES_Q[1:]:
        src.append(product(fam, PBF_FRAME, {"ds": "single_full", "hdrsize": str(h)}))
        for ds in ["basic", "empty"]:
            src.append(product(fam, ["blob"], {"ds": ds, "hdrsize": str(h)}))
    # tri-state: packed fields split in two records
    for ds in ["basic", "history", "many"]:
        src.append(product(fam, ["nodes", "info"], {"ds": ds, "packed": "split"}))
    if tier == "quick":
        for ds in ["basic", "history"]:
            src.append(product(fam, PBF_CORE, {"ds": ds}))
    else:
        # full product of every block-level choice on the main data set (331776 combinations), of ten of the twelve on the
        # history data set, of a reduced core on seven more, and of the framing choices; every BlobHeader size up to the limit
        src.append(product(fam, PBF_BLOCK, {"ds": "basic"}))
        src.append(product(fam, [d for d in PBF_BLOCK if d not in ("defaults", "dense_kv")], {"ds": "history"}))
        for ds in ["nometa", "anon", "mixed", "strings", "single_full", "extremes", "waylocs"]:
            src.append(product(fam, PBF_CORE + ["stringtable", "dense_kv"], {"ds": ds}))
        for ds in ["basic", "history"]:
            src.append(product(fam, ["nodes", "info", "grouping", "empty"] + PBF_FRAME, {"ds": ds}))
        allsizes = [str(h) for h in range(1, 65536)]
        src.append(product(fam, ["hdrsize"], {"ds": "single_full"}, menus={"hdrsize": allsizes}))
        src.append(product(fam, ["hdrsize"], {"ds": "single_full", "blob": "zlib", "order": "reversed"}, menus={"hdrsize": allsizes[::17]}))
    return src


O5M_ALL = ["filetype", "strings", "reset", "extras", "header", "end"]


def plan_o5m(fam, tier):
    dss = ["basic", "history", "nometa", "anon", "mixed", "strings", "single_full", "extremes", "long", "many", "single", "empty",
           "cs_max", "outofrange", "id_max"]
    return [product(fam, O5M_ALL, {"ds": ds}) for ds in dss]


XML_CORE = ["attrs", "quote", "escape", "space", "optattrs"]


def plan_xml(fam, tier):
    src = []
    skip = ("ds", "objs")
    good = ["basic", "history", "nometa", "anon", "mixed", "strings", "single_full", "extremes", "waylocs", "waylocs_partial", "changesets", "discussion"]
    for ds in good:
        src.append(ball(fam, 1, {"ds": ds}))
        src.append(with_fixed(covering(fam, 3 if tier == "quick" else 4, skip=skip), {"ds": ds}))
    for ds in ["long", "cs_max", "outofrange", "id_max", "single", "empty", "many"]:
        src.append(ball(fam, 1, {"ds": ds}))
        src.append(with_fixed(covering(fam, 2, skip=skip), {"ds": ds}))
    # tri-state values paired with every other single choice
    for d in fam.dims:
        for v in sorted(d.tri):
            for ds in ["basic", "strings"]:
                src.append(ball(fam, 1, {"ds": ds, d.name: v}))
    for ds in ["basic", "strings"] if tier == "quick" else good:
        src.append(product(fam, XML_CORE, {"ds": ds}))
    if tier == "thorough":
        for ds in ["basic", "history", "strings"]:
            src.append(product(fam, ["root", "sections", "decl", "empty", "children", "visible", "bounds", "extras", "coords"], {"ds": ds}))
    return src


OPL_ALL = ["order", "optional", "sep", "eol", "final", "filler", "escape", "coords"]


def plan_opl(fam, tier):
    src = []
    full = ["basic", "history", "strings"] if tier == "quick" else \
        ["basic", "history", "strings", "nometa", "anon", "mixed", "single_full", "extremes", "waylocs", "changesets", "long"]
    for ds in ["nometa", "anon", "mixed", "single_full", "extremes", "waylocs", "waylocs_partial", "changesets", "long", "many", "cs_max", "outofrange", "id_max", "single", "empty"]:
        src.append(ball(fam, 2, {"ds": ds}))
        src.append(with_fixed(covering(fam, 3), {"ds": ds}))
    for ds in full:
        src.append(product(fam, OPL_ALL, {"ds": ds}))
    return src


PLANS = {"pbf": plan_pbf, "o5m": plan_o5m, "xml": plan_xml, "opl": plan_opl}

ALL_DS = list(model.DATASETS)
FAMILIES = {
    "pbf": Std("pbf", ["basic"] + [d for d in ALL_DS if d != "basic"]),
    "o5m": Std("o5m", ["basic"] + [d for d in ALL_DS if d != "basic"]),
    "xml": Std("xml", ["basic"] + [d for d in ALL_DS if d != "basic"]),
    "opl": Std("opl", ["basic"] + [d for d in ALL_DS if d != "basic"]),
}

import special  # noqa: E402  (registers the special families: o5m tails/table/boundaries, permutations, tiny files, agree)
special.register(sys.modules[__name__])

PARTS = {   # part name -> families enumerated by it
    "pbf": ["pbf-size", "pbf"], "o5m": ["o5m", "o5m-tail", "o5m-table", "o5m-len"], "xml": ["xml", "xml-perm"], "opl": ["opl", "opl-perm"],
    "tiny": ["tiny"], "agree": ["agree"],
}


# ------------------------------------------------------------------------------------------------
# frames

def frame(out, tag, *fields):
    buf = [tag, struct.pack("<I", len(fields))]
    for f in fields:
        if isinstance(f, str):
            f = f.encode("utf-8")
        buf.append(struct.pack("<I", len(f)))
        buf.append(f)
    out.write(b"".join(buf))


def rec(out, fam, c, case):
    meta = "nt=%d;tri=%s;group=%s" % (1 if case.nt else 0, case.tri, case.group)
    frame(out, b"REC ", fam.spec(c), case.suffix, case.data, case.expected, meta)


def cases_of_part(part, tier, shard=0, nshards=1):
    for fname in PARTS[part]:
        fam = FAMILIES[fname]
        for c in fam.plan(tier, shard, nshards):
            yield fam, c


def cmd_enum(part, tier, shard, nshards, skip, out):
    n = nenc = 0
    covered = {}
    for fam, c in cases_of_part(part, tier, shard, nshards):
        n += 1
        if n <= skip:
            continue
        if hasattr(fam, "group"):           # one data set in several formats: the records of a group follow each other
            for c2, case in fam.group(c):
                rec(out, fam, c2, case)
            continue
        try:
            case = fam.build(c)
        except NotEncodable:
            nenc += 1
            frame(out, b"NENC", fam.spec(c), "")
            continue
        for k, v in fam.full(c).items():
            if k not in ("objs",):
                covered[(fam.name, k, v)] = covered.get((fam.name, k, v), 0) + 1
        rec(out, fam, c, case)
    cov = "\n".join("%s:%s=%s\t%d" % (a, b, v, cnt) for (a, b, v), cnt in sorted(covered.items())
                    if FAMILIES[a].dim(b).kind == "enum" and v in FAMILIES[a].dim(b).values and len(FAMILIES[a].dim(b).values) <= 40)
    frame(out, b"END ", str(n), str(nenc), cov)
    out.flush()


# ------------------------------------------------------------------------------------------------
# minimisation (serve)

class Server:
    def __init__(self, inp, out):
        self.inp, self.out = inp, out
        self.known = []     # (family, kind, {dim: set(values)|(lo,hi)}, key) of minimal failing sets found so far

    def line(self):
        l = self.inp.readline()
        if not l:
            sys.exit(0)
        return l.rstrip("\n").split("\t")

    def ask(self, fam, c, cache):
        """does the case fail, and how? returns kind ('' = passes, None = not encodable)"""
        s = fam.spec(c)
        if s in cache:
            return cache[s]
        try:
            case = fam.build(c)
        except NotEncodable:
            cache[s] = None
            return None
        rec(self.out, fam, c, case)
        self.out.flush()
        r = self.line()
        if r[0] != "RES":
            raise RuntimeError("protocol: expected RES, got %r" % r)
        cache[s] = r[1] if len(r) > 1 else ""
        return cache[s]

    def subsumed(self, fam, c, kind):
        for (f, k, m, key) in self.known:          # a superset of a minimal failing set already found: same class
            if f == fam.name and k == kind and all(self._in(c.get(d, fam.dim(d).default), vs) for d, vs in m.items()):
                frame(self.out, b"KEY ", key, "", "subsumed")
                self.out.flush()
                return True
        return False

    def minimise(self, spec, kind, only_lookup=False):
        fam, c = parse_spec(spec)
        c = {k: v for k, v in fam.full(c).items() if v != fam.dim(k).default}
        if self.subsumed(fam, c, kind):
            return
        if only_lookup:
            frame(self.out, b"KEY ", "", "", "unknown")
            self.out.flush()
            return
        cache = {fam.spec(c): kind}
        changed = True
        while changed:                              # reset choices to their default until no single reset keeps the failure
            changed = False
            for d in fam.dims:
                if d.name in c and d.kind != "subset" and d.name != "ds":
                    t = dict(c)
                    del t[d.name]
                    if self.ask(fam, t, cache) == kind:
                        c, changed = t, True
            # the data set: try the smaller data sets first, then drop objects one at a time
            if "ds" in [d.name for d in fam.dims]:
                for small in ("single", "single_full"):
                    if c.get("ds", fam.dim("ds").default) not in ("single", "single_full", "empty") and "objs" not in c:
                        t = dict(c)
                        t["ds"] = small
                        if self.ask(fam, t, cache) == kind:
                            c, changed = t, True
                name = c.get("ds", fam.dim("ds").default)
                nobj = len(model.dataset(name)["objects"])
                if nobj <= 40:
                    cur = list(range(nobj)) if "objs" not in c else [int(x) for x in c["objs"].split(".") if x != ""]
                    i = 0
                    while i < len(cur) and len(cur) > 1:
                        t = dict(c)
                        t["objs"] = ".".join(str(x) for x in cur[:i] + cur[i + 1:])
                        if self.ask(fam, t, cache) == kind:
                            c, cur, changed = t, cur[:i] + cur[i + 1:], True
                        else:
                            i += 1
        # contiguous failing interval of every numeric (range) choice in the minimal set
        m = {}
        parts = []
        if hasattr(fam, "reduce"):
            c, dname, label, member = fam.reduce(c, kind, lambda t: self.ask(fam, t, cache))
            if label:
                parts.append(label)
                m[dname] = ("class", member, label)
        for d in fam.dims:
            if d.name not in c or d.name in ("ds", "objs") or d.kind == "perm":
                continue
            if d.kind == "range" and d.classify and d.classify(c[d.name]):
                m[d.name] = ("class", d.classify, d.classify(c[d.name]))
                parts.append("%s~%s" % (d.name, d.classify(c[d.name])))
            elif d.kind == "range":
                v = int(c[d.name])
                lo = hi = v
                cap = 256      # neighbours probed per direction; an interval that is longer is written "lo-..hi+"
                while lo - 1 >= d.lo and v - lo < cap and lo - 1 != int(d.default) and self.ask(fam, dict(c, **{d.name: str(lo - 1)}), cache) == kind:
                    lo -= 1
                while hi + 1 <= d.hi and hi - v < cap and hi + 1 != int(d.default) and self.ask(fam, dict(c, **{d.name: str(hi + 1)}), cache) == kind:
                    hi += 1
                m[d.name] = (lo, hi)
                if v - lo >= cap or hi - v >= cap:     # open-ended: name the class by its order of magnitude only
                    m[d.name] = (lo if v - lo < cap else d.lo, hi if hi - v < cap else d.hi)
                    parts.append("%s=%s..%s" % (d.name, lo if v - lo < cap else "", hi if hi - v < cap else ""))
                else:
                    parts.append("%s=%d..%d" % (d.name, lo, hi))
            else:
                m[d.name] = {c[d.name]}
                parts.append("%s=%s" % (d.name, c[d.name]))
        key = "%s/%s/%s" % (fam.name, kind, ",".join(parts) if parts else "default-encoding")
        self.known.append((fam.name, kind, m, key))
        frame(self.out, b"KEY ", key, fam.spec(c), "minimised from " + spec)
        self.out.flush()

    @staticmethod
    def _in(v, vs):
        if isinstance(vs, tuple) and vs[0] == "class":
            return vs[1](v) == vs[2]
        if isinstance(vs, tuple):
            return v.lstrip("-").isdigit() and vs[0] <= int(v) <= vs[1]
        return v in vs

    def run(self):
        while True:
            cmd = self.line()
            if cmd[0] == "QUIT":
                return
            if cmd[0] == "ONE":
                fam, c = parse_spec(cmd[1])
                try:
                    rec(self.out, fam, c, fam.build(c))
                except NotEncodable as e:
                    frame(self.out, b"NENC", cmd[1], str(e))
                self.out.flush()
            elif cmd[0] == "GROUP":
                fam, c = parse_spec(cmd[1])
                for c2, case in fam.group(c):
                    rec(self.out, fam, c2, case)
                frame(self.out, b"END ", "0", "0", "")
                self.out.flush()
            elif cmd[0] == "MIN":
                self.minimise(cmd[1], cmd[2])
            elif cmd[0] == "SUB":
                self.minimise(cmd[1], cmd[2], only_lookup=True)
            else:
                raise RuntimeError("protocol: unknown command %r" % cmd)


def main(argv):
    import argparse
    ap = argparse.ArgumentParser()
    ap.add_argument("cmd", choices=["enum", "serve", "dump", "count"])
    ap.add_argument("--part")
    ap.add_argument("--tier", default="quick")
    ap.add_argument("--shard", default="0/1")
    ap.add_argument("--skip", type=int, default=0)
    ap.add_argument("--out")
    ap.add_argument("--limit", type=int, default=1 << 60)
    a = ap.parse_args(argv)
    out = sys.stdout.buffer
    if a.cmd == "enum":
        i, n = a.shard.split("/")
        cmd_enum(a.part, a.tier, int(i), int(n), a.skip, out)
    elif a.cmd == "serve":
        Server(sys.stdin, out).run()
    elif a.cmd == "count":
        for part in PARTS:
            per = {}
            for fam, c in cases_of_part(part, a.tier):
                per[fam.name] = per.get(fam.name, 0) + 1
            print(part, per)
    else:
        import os
        os.makedirs(a.out, exist_ok=True)
        k = 0
        with open(os.path.join(a.out, "INDEX.txt"), "w") as index:
            for fam, c in cases_of_part(a.part, a.tier):
                if k >= a.limit:
                    break
                try:
                    case = fam.build(c)
                except NotEncodable:
                    continue
                base = "%s-%06d" % (fam.name, k)
                with open(os.path.join(a.out, base + "." + case.suffix), "wb") as fh:
                    fh.write(case.data)
                with open(os.path.join(a.out, base + ".expected"), "w") as fh:
                    fh.write(case.expected)
                index.write("%s\t%s\t%s\n" % (base, fam.spec(c), case.tri))
                k += 1
        print("wrote %d files to %s" % (k, a.out))


if __name__ == "__main__":
    main(sys.argv[1:])
