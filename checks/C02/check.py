"""C02 - readers decode every spec-conformant file, however it was encoded (DESIGN.md section 5, C02)."""
import os
import sys

LEVEL = "exploration"
RULE = ("exhaustive products of finite menus of free encoding choices x small abstract data sets, no random generation. An independent, "
        "specification-derived Python generator (checks/C02/gen.py + enc_*.py) enumerates per format a deterministic plan: the full product of "
        "the choice menus where it is small (o5m: all 432 combinations x 13 data sets; OPL: all 4608 x 3|10 data sets; PBF thorough: all 165888 "
        "block-level combinations x 2 data sets, 2304..13824 x 6 more, framing products, every BlobHeader size 1..65535), otherwise every single "
        "deviation from the default encoding plus a greedy strength-3 (XML thorough: 4) covering array of all choice values per data set plus full "
        "products of a core subset; special families: every o5m file tail of 1..12|40 bytes after the last data set's type byte x 4 prefixes x 4 "
        "data set kinds, string-table references at 1/2/mid/oldest of 1..45005 stored strings (wrap-around), strings of 246..256|200..300 "
        "characters around the 250-character table limit, all 8! (thorough: also 9!) attribute/field orders of a node in XML and OPL, the smallest "
        "valid files of each format, and 7 data sets x 3 encoding profiles read through all four readers. Each generated file comes with the "
        "canonical text of the header and objects it denotes; the harness reads it with the real osmium::io::Reader by file name and from a "
        "memory buffer and compares byte for byte. evaluations = files read (each twice); distinct_nontrivial = files with at least one "
        "non-default encoding choice that denote >= 1 object and were decoded exactly (distinct by construction: the plan is de-duplicated by "
        "case spec). Tri-state cases (legal by the letter of protobuf/XML/o5m but outside what the format descriptions promise or the library "
        "documents) are counted by outcome under tri/..., never alarmed.")
DEADLINE = {"quick": 200, "thorough": 1100}
# part, shards, weight of the part in the time budget (quick, thorough); time a part does not use goes to the following ones
PARTS = [("tiny", 1, (1, 1)), ("agree", 2, (1, 1)), ("o5m", 16, (6, 3)), ("xml", 16, (6, 12)), ("opl", 16, (6, 10)), ("pbf", 16, (6, 40))]


def build(ctx):
    flags = ['-DC02_DIR="%s"' % ctx.checkdir, '-DC02_DATA="%s"' % os.path.join(os.path.dirname(os.path.dirname(ctx.checkdir)), "build", "C02-data"),
             '-DC02_PYTHON="%s"' % sys.executable]
    return {"h02": ctx.build("h02", ["h02.cpp"], flags=flags, opt="-O2")}


def run(ctx):
    exe = build(ctx)["h02"]
    if getattr(ctx, "build_only", False):
        return
    env = {"PYTHONDONTWRITEBYTECODE": "1", "OSMIUM_POOL_THREADS": "2", "C02_PYTHON": sys.executable}
    import time
    wi = 0 if ctx.tier == "quick" else 1
    for n, (part, shards, w) in enumerate(PARTS):
        rest = sum(p[2][wi] for p in PARTS[n:])
        budget = max(5, int(ctx.remaining() * w[wi] / rest))
        t = time.time()
        # (the harness takes the last --deadline it is given)
        ctx.run_harness(exe, ["--part", part, "--deadline", str(budget)], shards=shards, env=env)
        ctx.notes.append("part %s: %.1fs of a budget of %ds" % (part, time.time() - t, budget))
    ctx.assume("the Python encoders implement the published format descriptions (PBF: protobuf encoding guide + fileformat.proto/osmformat.proto; "
               "o5m: wiki O5m; OSM XML / OsmChange wiki + XML 1.0; OPL manual); coordinates in PBF files are chosen exactly representable in the "
               "block's granularity/offset, so no rounding rule is involved")
    ctx.assume("tri-state (counted, not alarmed): changeset id 2^32-1 (rejected by the text parsers as pinned by the repo's tests); OPL node "
               "locations outside +-180/+-90 (documented: only valid locations are kept); packed protobuf fields split into several records; "
               "XML in encodings other than UTF-8; interleaved <nd>/<tag> children; an o5m single string of exactly 251 characters; o5m files "
               "that rely on way-node and relation-node-member references sharing or not sharing a delta counter")
