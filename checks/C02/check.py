"""C02 - readers decode every spec-conformant file, however it was encoded (DESIGN.md section 5, C02).

Files: gen.py (plans, case protocol, minimisation), special.py (corner-case families), model.py (abstract data sets and
their canonical text), enc_pbf.py / enc_o5m.py / enc_xml.py / enc_opl.py (independent, specification-derived encoders),
h02.cpp (reads every case with the real osmium::io::Reader and the format parser, compares, reports)."""
import os
import sys
import time

LEVEL = "exploration"
RULE = ("exhaustive products of finite menus of free encoding choices x small abstract data sets, no random generation. An independent, "
        "specification-derived Python generator (gen.py, special.py, enc_*.py) enumerates a deterministic plan per format; every case is a "
        "file plus the canonical text of the header and objects it denotes; the harness reads it with the real osmium::io::Reader by file "
        "name and drives the format's parser directly on the same bytes in memory, and compares both dumps with the expectation byte for "
        "byte. Plan per format: the full product of the choice menus where it is small (o5m: all 432 combinations of 6 choices x 15 data "
        "sets; OPL: all 4608 combinations of 8 choices x 3 data sets in quick | 11 in thorough; PBF thorough: all 331776 combinations of the "
        "12 block-level choices on the main data set, 82944 on the history data set, 13824 on 7 more, 5760 framing combinations x 2, every "
        "BlobHeader size 1..65535), otherwise every single deviation from the default encoding plus a greedy strength-3 (XML thorough: 4; "
        "self-checked) covering array of all choice values per data set plus full products of a core subset (PBF quick: 2304 x 2; XML: 750 x "
        "2|11, thorough also 7680 x 3). Special families: every o5m file tail of 1..12 | 1..40 bytes after the type byte of the last data "
        "set x 4 prefixes x 4 kinds of last data set x end marker; o5m string-table references 1 / 2 / mid / oldest-1 / oldest after 1..45005 "
        "stored strings (tag pairs, user pairs, roles; before and after wrap-around of the 15000 entries); strings of 246..256 | 200..300 "
        "characters around the 250-character table limit; all 7! (thorough: also 8!, OPL also 9!) attribute/field orders of a node in XML "
        "and OPL; PBF blobs whose content ends 1..13 bytes (quick: 1, 5, 6, 11), 4 KiB and 16 MiB below the 32 MiB limit (raw, raw+size, zlib, lz4); the smallest valid files of each format; 8 data "
        "sets x 3 encoding profiles read through all four readers (reader against reader). evaluations = files read (each twice); "
        "distinct_nontrivial = files with at least one non-default encoding choice that denote >= 1 object and were decoded exactly "
        "(distinct by construction: rows of one source are de-duplicated by case spec, a row inside a full product is left to it). Failing "
        "cases are minimised (choices reset to default, objects dropped, numeric choices widened to the contiguous failing interval / "
        "class) and reported under the minimal set of non-default choices. Tri-state cases (legal by the letter of protobuf / XML / o5m but "
        "outside what the format descriptions promise or the library documents) are counted by outcome under tri/..., never alarmed.")
DEADLINE = {"quick": 200, "thorough": 1100}
# part, shards, weight of the part in the time budget (quick, thorough); time a part does not use goes to the following ones
PARTS = [("tiny", 1, (1, 1)), ("agree", 2, (1, 1)), ("o5m", 16, (6, 8)), ("xml", 16, (6, 20)), ("opl", 16, (6, 12)), ("pbf", 16, (6, 40))]


def build(ctx):
    data = os.path.join(os.path.dirname(os.path.dirname(ctx.checkdir)), "build", "C02-data")
    flags = ['-DC02_DIR="%s"' % ctx.checkdir, '-DC02_DATA="%s"' % data, '-DC02_PYTHON="%s"' % sys.executable]
    return {"h02": ctx.build("h02", ["h02.cpp"], flags=flags, opt="-O2")}


def run(ctx):
    exe = build(ctx)["h02"]
    if getattr(ctx, "build_only", False):
        return
    env = {"PYTHONDONTWRITEBYTECODE": "1", "OSMIUM_POOL_THREADS": "2", "C02_PYTHON": sys.executable}
    wi = 0 if ctx.tier == "quick" else 1
    for n, (part, shards, w) in enumerate(PARTS):
        rest = sum(p[2][wi] for p in PARTS[n:])
        budget = max(5, int(ctx.remaining() * w[wi] / rest))
        t = time.time()
        # (the harness takes the last --deadline it is given)
        ctx.run_harness(exe, ["--part", part, "--deadline", str(budget)], shards=shards, env=env)
        ctx.notes.append("part %s: %.1fs of a budget of %ds" % (part, time.time() - t, budget))
    ctx.assume("the Python encoders implement the published format descriptions (PBF: protobuf encoding guide + fileformat.proto / "
               "osmformat.proto as on the OSM wiki; o5m: wiki O5m; OSM XML / OsmChange wiki + XML 1.0; OPL manual); coordinates in PBF files "
               "are chosen exactly representable in the block's granularity/offset, so no rounding rule is involved")
    ctx.assume("domain: ids in (INT64_MIN, INT64_MAX), version and uid < 2^31, timestamps and changesets < 2^32-1, locations undefined or "
               "any int32 pair (OPL: valid range only), strings valid UTF-8 without NUL of <= 1024 bytes (XML: without the characters XML 1.0 "
               "cannot carry), restricted per format to what it can carry (o5m: no author data without timestamp, deleted objects only in "
               ".o5c; not encodable combinations are skipped and counted)")
    ctx.assume("tri-state (counted, not alarmed): changeset id 2^32-1 in PBF/XML and id INT64_MAX in XML (rejected by the text/int parsers as "
               "pinned by the repo's tests and C13); OPL node locations outside +-180/+-90 (documented: only valid locations are kept); packed "
               "protobuf fields split into several records; XML in encodings other than UTF-8, with a DOCTYPE, or with interleaved <nd>/<tag> "
               "children; an o5m single string of exactly 251 characters (250 + 2 bytes rule read with one terminator); o5m files that rely on "
               "way-node and relation-node-member references sharing or not sharing a delta counter; raw PBF blobs whose content is below "
               "32 MiB while the Blob message around it is not")
