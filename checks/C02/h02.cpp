// C02 - readers decode every spec-conformant file, however it was encoded.
//
// The cases come from the Python generator next to this file (gen.py: independent, specification-derived encoders
// for PBF, o5m/o5c, OSM XML and OPL): every case is a file plus the canonical text of the header and objects it
// denotes. This harness reads each file with the REAL osmium::io::Reader - once by file name (file on disk under
// /verif/build/C02-data/, format from the suffix, descriptor path) and once from a memory buffer - prints the same
// canonical form from what the Reader delivered and compares byte for byte.
//
//   --part pbf|o5m|xml|opl   (a) reader's dump == generator's object list, for every case of the part's families
//   --part tiny              (c) the smallest spec-valid files are accepted with the same (empty) result
//   --part agree             (b) the four readers deliver the same objects for a data set all four formats carry
//
// A failing case is minimised in a conversation with `gen.py serve` (choices reset to their defaults, objects
// dropped, numeric choices widened to the contiguous failing interval) - the class key names the minimal set of
// non-default encoding choices, so every failing case of one root cause maps to one key.
// Tri-state cases (legal by the letter of a specification but outside what the format description promises or the
// library documents) are counted by outcome and never alarm.
#include <benum/benum.hpp>

#include <osmium/io/any_input.hpp>
#include <osmium/io/detail/input_format.hpp>
#include <osmium/io/detail/queue_util.hpp>
#include <osmium/io/reader.hpp>
#include <osmium/osm.hpp>

#include <sys/prctl.h>
#include <sys/stat.h>
#include <cxxabi.h>

#include <algorithm>
#include <map>
#include <string>
#include <typeinfo>
#include <vector>

#ifndef C02_DIR
# define C02_DIR "/verif/checks/C02"
#endif
#ifndef C02_DATA
# define C02_DATA "/verif/build/C02-data"
#endif
#ifndef C02_PYTHON
# define C02_PYTHON "python3"
#endif
static std::string python() { const char* e = getenv("C02_PYTHON"); return e && *e ? e : C02_PYTHON; }

using benum::Args;
static benum::Counters C;
static benum::Violations V;

// ------------------------------------------------------------------------------------------------
// canonical text (mirror of model.py)

static void esc(std::string& out, const char* s, size_t n) {
    static const char* hexd = "0123456789abcdef";
    for (size_t i = 0; i < n; ++i) {
        const unsigned char c = static_cast<unsigned char>(s[i]);
        if (c >= 0x21 && c <= 0x7e && c != '%' && c != ',' && c != '=' && c != '@' && c != ';' && c != ':') out += static_cast<char>(c);
        else { out += '%'; out += hexd[c >> 4]; out += hexd[c & 15]; }
    }
}
static void esc(std::string& out, const char* s) { esc(out, s, strlen(s)); }
static void esc(std::string& out, const std::string& s) { esc(out, s.data(), s.size()); }

static void dump_header(std::string& out, const osmium::io::Header& h) {
    out += "H multi=";
    out += h.has_multiple_object_versions() ? '1' : '0';
    out += " opts=";
    std::vector<std::pair<std::string, std::string>> kv(h.begin(), h.end());
    std::sort(kv.begin(), kv.end());
    bool first = true;
    for (const auto& p : kv) { if (!first) out += ';'; first = false; esc(out, p.first); out += '='; esc(out, p.second); }
    out += " boxes=";
    first = true;
    for (const auto& b : h.boxes()) {
        if (!first) out += ';';
        first = false;
        out += std::to_string(b.bottom_left().x()) + "," + std::to_string(b.bottom_left().y()) + "," + std::to_string(b.top_right().x()) + "," + std::to_string(b.top_right().y());
    }
    out += '\n';
}

static void dump_tags(std::string& out, const osmium::TagList& tags) {
    out += " T";
    bool first = true;
    for (const auto& t : tags) { if (!first) out += ','; first = false; esc(out, t.key()); out += '='; esc(out, t.value()); }
}

static void dump_object(std::string& out, const osmium::OSMObject& o) {
    out += osmium::item_type_to_char(o.type());
    out += std::to_string(o.id());
    out += " v" + std::to_string(o.version());
    out += o.visible() ? " dV" : " dD";
    out += " c" + std::to_string(o.changeset());
    out += " t" + std::to_string(static_cast<uint32_t>(o.timestamp()));
    out += " i" + std::to_string(o.uid());
    out += " u";
    esc(out, o.user());
    dump_tags(out, o.tags());
    if (o.type() == osmium::item_type::node) {
        const auto& n = static_cast<const osmium::Node&>(o);
        out += " x" + std::to_string(n.location().x()) + " y" + std::to_string(n.location().y());
    } else if (o.type() == osmium::item_type::way) {
        out += " N";
        bool first = true;
        for (const auto& nr : static_cast<const osmium::Way&>(o).nodes()) {
            if (!first) out += ',';
            first = false;
            out += std::to_string(nr.ref());
            if (nr.location().is_defined()) out += "@" + std::to_string(nr.location().x()) + ":" + std::to_string(nr.location().y());
        }
    } else {
        out += " M";
        bool first = true;
        for (const auto& m : static_cast<const osmium::Relation&>(o).members()) {
            if (!first) out += ',';
            first = false;
            out += osmium::item_type_to_char(m.type());
            out += std::to_string(m.ref());
            out += '@';
            esc(out, m.role());
        }
    }
    out += '\n';
}

static void dump_changeset(std::string& out, const osmium::Changeset& c) {
    out += "c" + std::to_string(c.id()) + " k" + std::to_string(c.num_changes()) + " s" + std::to_string(static_cast<uint32_t>(c.created_at())) +
           " e" + std::to_string(static_cast<uint32_t>(c.closed_at())) + " d" + std::to_string(c.num_comments()) + " i" + std::to_string(c.uid()) + " u";
    esc(out, c.user());
    out += " B";
    const auto& b = c.bounds();
    if (b.bottom_left().is_defined() || b.top_right().is_defined())
        out += std::to_string(b.bottom_left().x()) + "," + std::to_string(b.bottom_left().y()) + "," + std::to_string(b.top_right().x()) + "," + std::to_string(b.top_right().y());
    else out += '-';
    dump_tags(out, c.tags());
    out += " D";
    bool first = true;
    for (const auto& cm : c.discussion()) {
        if (!first) out += ',';
        first = false;
        out += std::to_string(static_cast<uint32_t>(cm.date())) + ":" + std::to_string(cm.uid()) + ":";
        esc(out, cm.user());
        out += ':';
        esc(out, cm.text());
    }
    out += '\n';
}

struct ReadResult { bool threw = false; std::string dump, what; };

static std::string demangle(const char* n) {
    int st = 0;
    char* d = abi::__cxa_demangle(n, nullptr, nullptr, &st);
    std::string r = (st == 0 && d) ? d : n;
    free(d);
    return r;
}

static void dump_buffer(std::string& out, const osmium::memory::Buffer& buffer) {
    for (const auto& item : buffer) {
        switch (item.type()) {
            case osmium::item_type::node: case osmium::item_type::way: case osmium::item_type::relation:
                dump_object(out, static_cast<const osmium::OSMObject&>(item)); break;
            case osmium::item_type::changeset:
                dump_changeset(out, static_cast<const osmium::Changeset&>(item)); break;
            default:
                out += "?item-type-" + std::to_string(static_cast<int>(item.type())) + "\n";
        }
    }
}

// the complete pipeline: osmium::io::Reader (read thread, parser thread, pool)
static ReadResult read_all(const osmium::io::File& file) {
    ReadResult r;
    try {
        osmium::io::Reader reader{file, osmium::osm_entity_bits::all};
        const osmium::io::Header h = reader.header();
        dump_header(r.dump, h);
        while (osmium::memory::Buffer buffer = reader.read()) dump_buffer(r.dump, buffer);
        reader.close();
    } catch (const std::exception& e) {
        r.threw = true;
        r.what = demangle(typeid(e).name()) + ": " + e.what();
    }
    return r;
}

// the format's parser driven directly in this thread (what the Reader's parser thread runs): the whole file is put
// into the input queue as one string, Parser::parse() is called, header promise and output queue are read afterwards
static ReadResult parse_direct(const std::string& data, const std::string& format) {
    namespace iod = osmium::io::detail;
    ReadResult r;
    try {
        const osmium::io::File file{data.data(), data.size(), format};
        iod::future_string_queue_type inq{0, "c02_in"};
        iod::future_buffer_queue_type outq{0, "c02_out"};
        std::promise<osmium::io::Header> header_promise;
        std::future<osmium::io::Header> header_future = header_promise.get_future();
        std::atomic<std::size_t> offset{0};
        iod::parser_arguments args{osmium::thread::Pool::default_instance(), -1, inq, outq, header_promise, &offset,
                                   osmium::osm_entity_bits::all, osmium::io::read_meta::yes, osmium::io::buffers_type::any, false};
        if (!data.empty()) iod::add_to_queue(inq, std::string{data});
        iod::add_end_of_data_to_queue(inq);
        setenv("OSMIUM_USE_POOL_THREADS_FOR_PBF_PARSING", "false", 1);
        {
            auto parser = iod::ParserFactory::instance().get_creator_function(file)(args);
            parser->parse();
        }
        unsetenv("OSMIUM_USE_POOL_THREADS_FOR_PBF_PARSING");
        const osmium::io::Header h = header_future.get();
        dump_header(r.dump, h);
        iod::queue_wrapper<osmium::memory::Buffer> q{outq};
        while (!q.has_reached_end_of_data()) {
            osmium::memory::Buffer b = q.pop();
            if (b) dump_buffer(r.dump, b);
        }
    } catch (const std::exception& e) {
        unsetenv("OSMIUM_USE_POOL_THREADS_FOR_PBF_PARSING");
        r.threw = true;
        r.what = demangle(typeid(e).name()) + ": " + e.what();
    }
    return r;
}

// ------------------------------------------------------------------------------------------------
// child processes and frames

struct Proc {
    pid_t pid = -1; int to = -1; FILE* from = nullptr;
    bool start(const std::vector<std::string>& argv, bool want_stdin) {
        int in[2] = {-1, -1}, out[2];
        if (pipe(out) != 0) return false;
        if (want_stdin && pipe(in) != 0) return false;
        pid = fork();
        if (pid < 0) return false;
        if (pid == 0) {
            prctl(PR_SET_PDEATHSIG, SIGKILL);
            dup2(out[1], 1); close(out[0]); close(out[1]);
            if (want_stdin) { dup2(in[0], 0); close(in[0]); close(in[1]); }
            else { int dn = open("/dev/null", O_RDONLY); dup2(dn, 0); }
            std::vector<char*> av;
            for (const auto& s : argv) av.push_back(const_cast<char*>(s.c_str()));
            av.push_back(nullptr);
            execvp(av[0], av.data());
            _exit(127);
        }
        close(out[1]);
        from = fdopen(out[0], "rb");
        if (want_stdin) { close(in[0]); to = in[1]; }
        return true;
    }
    void send(const std::string& line) {
        std::string l = line + "\n";
        size_t off = 0;
        while (off < l.size()) { ssize_t n = ::write(to, l.data() + off, l.size() - off); if (n <= 0) { if (errno == EINTR) continue; break; } off += static_cast<size_t>(n); }
    }
    void stop() {
        if (to >= 0) { close(to); to = -1; }
        if (from) { fclose(from); from = nullptr; }
        if (pid > 0) { kill(pid, SIGTERM); int st; waitpid(pid, &st, 0); pid = -1; }
    }
};

struct Frame { std::string tag; std::vector<std::string> f; };

static bool read_frame(FILE* in, Frame& fr) {
    char tag[4];
    if (fread(tag, 1, 4, in) != 4) return false;
    fr.tag.assign(tag, 4);
    uint32_t n = 0;
    if (fread(&n, 4, 1, in) != 1 || n > 16) return false;
    fr.f.assign(n, std::string());
    for (uint32_t i = 0; i < n; ++i) {
        uint32_t len = 0;
        if (fread(&len, 4, 1, in) != 1 || len > (1u << 30)) return false;
        fr.f[i].resize(len);
        if (len && fread(&fr.f[i][0], 1, len, in) != len) return false;
    }
    return true;
}

[[noreturn]] static void die(const std::string& msg) {
    fprintf(stderr, "h02: %s\n", msg.c_str());
    fflush(stdout);
    _exit(2);
}

// ------------------------------------------------------------------------------------------------
// one case

struct Case { std::string spec, suffix, data, expected, tri, group; bool nt = false; };

static Case case_of(const Frame& fr) {
    Case c;
    c.spec = fr.f[0]; c.suffix = fr.f[1]; c.data = fr.f[2]; c.expected = fr.f[3];
    const std::string& meta = fr.f[4];
    size_t p = 0;
    while (p < meta.size()) {
        size_t e = meta.find(';', p); if (e == std::string::npos) e = meta.size();
        std::string kv = meta.substr(p, e - p);
        size_t q = kv.find('=');
        std::string k = kv.substr(0, q), v = q == std::string::npos ? "" : kv.substr(q + 1);
        if (k == "nt") c.nt = v == "1"; else if (k == "tri") c.tri = v; else if (k == "group") c.group = v;
        p = e + 1;
    }
    return c;
}

static std::string g_dir;     // where this process materialises the files
static std::string g_tag;     // shard tag in file names

static std::vector<std::string> lines(const std::string& s) {
    std::vector<std::string> v;
    size_t p = 0;
    while (p < s.size()) { size_t e = s.find('\n', p); if (e == std::string::npos) e = s.size(); v.push_back(s.substr(p, e - p)); p = e + 1; }
    return v;
}

// how does `got` differ from `expected`?  "" = equal. The kind is coarse on purpose (it is part of the class key).
static std::string diff_kind(const std::string& expected, const std::string& got, std::string& detail) {
    if (expected == got) return "";
    auto e = lines(expected), g = lines(got);
    size_t i = 0;
    while (i < e.size() && i < g.size() && e[i] == g[i]) ++i;
    if (i == 0 && !e.empty() && !g.empty()) { detail = "header expected '" + e[0] + "' got '" + g[0] + "'"; return "wrong-header"; }
    if (i == g.size()) { detail = "objects missing from line " + std::to_string(i) + ": expected '" + e[i] + "'"; return "missing-objects"; }
    if (i == e.size()) { detail = "unexpected extra object '" + g[i] + "'"; return "extra-objects"; }
    // first differing field of the first differing object line
    auto fields = [](const std::string& l) { std::vector<std::string> f; size_t p = 0; while (p <= l.size()) { size_t q = l.find(' ', p); if (q == std::string::npos) q = l.size(); f.push_back(l.substr(p, q - p)); p = q + 1; } return f; };
    auto fe = fields(e[i]), fg = fields(g[i]);
    std::string what = "line";
    for (size_t k = 0; k < fe.size(); ++k) {
        if (k >= fg.size() || fe[k] != fg[k]) { what = k == 0 ? std::string("id") : std::string(1, fe[k].empty() ? '?' : fe[k][0]); break; }
    }
    detail = "object " + std::to_string(i) + " expected '" + e[i] + "' got '" + g[i] + "'";
    return std::string("wrong-") + (e[i].empty() ? '?' : e[i][0]) + "." + what;
}

struct Outcome { std::string kind, detail; };
static bool g_buffer_via_reader = false;   // --buffer-reader: second reading through a Reader on the memory buffer instead of the direct parser

// reads the case both ways and compares with the expectation
static Outcome evaluate(const Case& c) {
    Outcome o;
    const std::string path = g_dir + "/" + g_tag + "." + c.suffix;
    {
        FILE* f = fopen(path.c_str(), "wb");
        if (!f) die("cannot write " + path);
        if (!c.data.empty() && fwrite(c.data.data(), 1, c.data.size(), f) != c.data.size()) die("short write " + path);
        fclose(f);
    }
    const ReadResult rf = read_all(osmium::io::File{path});
    const ReadResult rb = g_buffer_via_reader ? read_all(osmium::io::File{c.data.data(), c.data.size(), c.suffix}) : parse_direct(c.data, c.suffix);
    std::string df, db;
    const std::string kf = rf.threw ? "rejected" : diff_kind(c.expected, rf.dump, df);
    const std::string kb = rb.threw ? "rejected" : diff_kind(c.expected, rb.dump, db);
    if (rf.threw) df = rf.what;
    if (rb.threw) db = rb.what;
    if (kf.empty() && kb.empty()) return o;
    if (kf == kb) { o.kind = kf; o.detail = df; }
    else if (kf.empty()) { o.kind = "via-buffer-only:" + kb; o.detail = db; }
    else if (kb.empty()) { o.kind = "via-file-only:" + kf; o.detail = df; }
    else { o.kind = kf; o.detail = "file: " + df + " | buffer: " + kb + " " + db; }
    return o;
}

static Proc g_server;

static void server_start() {
    if (g_server.pid > 0) return;
    if (!g_server.start({python(), "-B", std::string(C02_DIR) + "/gen.py", "serve"}, true)) die("cannot start gen.py serve");
}

static const Args* g_args = nullptr;
static int g_minimisations = 0;

// no time (or budget) left to minimise: report the case as it is under a key that says so; replaying "nomin:<spec>"
// evaluates without minimisation and gives the same key
static void report_unminimised(const Case& c, const Outcome& o) {
    const std::string fam = c.spec.substr(0, c.spec.find('|'));
    ++C["failing_cases_not_minimised"];
    V.report(fam + "/" + o.kind + "/unminimised", "case " + c.spec + ": " + o.detail, "nomin:" + c.spec);
}

static std::string shorten_hex(const std::string& data) { return data.size() <= 96 ? benum::hex(data) : benum::hex(data.substr(0, 96)) + "...(" + std::to_string(data.size()) + " bytes)"; }

// a case failed: let the generator minimise it; report under the canonical key
static void report_failure(const Case& c, const Outcome& o) {
    ++C["failing_cases"];
    server_start();
    if ((g_args && g_args->expired()) || g_minimisations >= 60) {
        // no time or budget left to minimise: only ask whether the case belongs to a class found before
        g_server.send("SUB\t" + c.spec + "\t" + o.kind);
        Frame fr;
        if (!read_frame(g_server.from, fr) || fr.tag != "KEY ") die("generator (serve) gave no answer to SUB");
        if (fr.f[2] == "subsumed") ++C["failing_cases_same_class_as_reported"]; else report_unminimised(c, o);
        return;
    }
    g_server.send("MIN\t" + c.spec + "\t" + o.kind);
    Case last = c; Outcome lasto = o;
    std::map<std::string, std::pair<Case, Outcome>> tried;
    for (;;) {
        Frame fr;
        if (!read_frame(g_server.from, fr)) die("generator (serve) closed the pipe during minimisation of " + c.spec);
        if (fr.tag == "REC ") {
            if (g_args && !g_args->replay && g_args->expired()) {      // out of time in the middle: give up on this one
                g_server.stop();
                report_unminimised(c, o);
                return;
            }
            Case t = case_of(fr);
            Outcome to = evaluate(t);
            if (to.kind == o.kind) {                 // a candidate for the minimal case (keep big files only once)
                if (t.data.size() > (1u << 20)) tried.clear();
                tried[t.spec] = {t, to};
            }
            g_server.send("RES\t" + to.kind);
        } else if (fr.tag == "KEY ") {
            if (fr.f[2] == "subsumed") { ++C["failing_cases_same_class_as_reported"]; return; }
            ++g_minimisations;
            const std::string& minspec = fr.f[1];
            auto it = tried.find(minspec);
            if (it != tried.end()) { last = it->second.first; lasto = it->second.second; }
            // keep the minimal failing file for inspection
            {
                mkdir((std::string(C02_DATA) + "/failures").c_str(), 0755);
                std::string base = std::string(C02_DATA) + "/failures/" + benum::hex(std::to_string(std::hash<std::string>{}(fr.f[0])));
                FILE* f = fopen((base + "." + last.suffix).c_str(), "wb"); if (f) { fwrite(last.data.data(), 1, last.data.size(), f); fclose(f); }
                f = fopen((base + ".expected").c_str(), "wb"); if (f) { fwrite(last.expected.data(), 1, last.expected.size(), f); fclose(f); }
            }
            V.report(fr.f[0], "minimal case " + minspec + " (" + fr.f[2] + "): " + lasto.detail + " | file=" + shorten_hex(last.data), minspec);
            return;
        } else die("unexpected frame " + fr.tag + " during minimisation");
    }
}

static void sample_case(const Case& c) {
    benum::sample(c.spec + " (" + std::to_string(c.data.size()) + " bytes ." + c.suffix + ") -> " + std::to_string(lines(c.expected).size() - 1) + " objects, matched");
}

static benum::Sampler* g_sampler = nullptr;
static uint64_t g_rank = 0;

static void process(const Case& c) {
    ++C["evaluations"];
    const Outcome o = evaluate(c);
    if (!c.tri.empty()) {          // tri-state: count what happened, never alarm
        ++C[("tri/" + c.tri + "/" + (o.kind.empty() ? "as-generator" : o.kind.substr(0, o.kind.find(':') == std::string::npos ? 24 : o.kind.find(':')))).c_str()];
        return;
    }
    if (o.kind.empty()) {
        if (c.nt) ++C["distinct_nontrivial"];
        ++C["matched"];
        if (g_sampler && c.nt && g_sampler->want(g_rank)) sample_case(c);
        return;
    }
    report_failure(c, o);
}

// (b) one data set in four formats: the readers' object lists must be equal to each other
static void process_group(const std::vector<Case>& grp) {
    if (grp.empty()) return;
    ++C["agree_groups"];
    std::vector<std::string> objs, names;
    for (const auto& c : grp) {
        ++C["evaluations"];
        const ReadResult r = read_all(osmium::io::File{c.data.data(), c.data.size(), c.suffix});
        std::string fmt = c.group.substr(c.group.find('#') + 1), spec = c.group.substr(0, c.group.find('#'));
        if (r.threw) { V.report("agree/" + fmt + "-rejects", spec + ": " + r.what, spec); return; }
        size_t nl = r.dump.find('\n');
        objs.push_back(nl == std::string::npos ? "" : r.dump.substr(nl + 1));
        names.push_back(fmt);
    }
    for (size_t i = 1; i < objs.size(); ++i) {
        if (objs[i] != objs[0]) {
            std::string d;
            std::string k = diff_kind("H\n" + objs[0], "H\n" + objs[i], d);
            std::string spec = grp[0].group.substr(0, grp[0].group.find('#'));
            V.report("agree/" + names[0] + "!=" + names[i] + "/" + k, spec + ": " + names[0] + " vs " + names[i] + ": " + d, spec);
            return;
        }
    }
    if (objs.size() >= 2 && !objs[0].empty()) ++C["distinct_nontrivial"];
    ++C["matched"];
    if (g_sampler && !objs[0].empty() && grp[0].group.find("profile") != std::string::npos && g_sampler->want(g_rank)) benum::sample(grp[0].group.substr(0, grp[0].group.find('#')) + ": " + std::to_string(objs.size()) + " readers agree on " + std::to_string(lines(objs[0]).size()) + " objects");
}

// ------------------------------------------------------------------------------------------------
// worker: runs in a forked child so that a crash or hang inside the library is attributed to its case

struct Shared { volatile uint64_t index; volatile uint64_t done; volatile uint64_t complete; char spec[4000]; };
static Shared* g_sh = nullptr;

static void setup_dir(const Args& a, const std::string& part) {
    mkdir(C02_DATA, 0755);
    g_dir = std::string(C02_DATA) + "/" + (a.replay ? "replay" : (a.thorough ? "thorough" : "quick"));
    mkdir(g_dir.c_str(), 0755);
    g_tag = part + "-s" + std::to_string(a.shard) + "-p" + std::to_string(getpid());
}

static void cleanup_dir() {
    for (const char* sfx : {"osm.pbf", "o5m", "o5c", "osm", "osc", "osh", "osm.opl"}) unlink((g_dir + "/" + g_tag + "." + sfx).c_str());
}

static int worker(const Args& a, const std::string& part, uint64_t skip) {
    setup_dir(a, part);
    g_args = &a;
    benum::Sampler sampler(a.seed + a.shard, a.shard % 4 == 0 ? 1 : 0, 211);
    g_sampler = &sampler;
    Proc gen;
    if (!gen.start({python(), "-B", std::string(C02_DIR) + "/gen.py", "enum", "--part", part, "--tier", a.thorough ? "thorough" : "quick",
                    "--shard", std::to_string(a.shard) + "/" + std::to_string(a.nshards), "--skip", std::to_string(skip)}, false)) die("cannot start gen.py enum");
    Frame fr;
    bool complete = false;
    std::vector<Case> grp;
    uint64_t n = skip;
    while (read_frame(gen.from, fr)) {
        if (fr.tag == "END ") {
            complete = true;
            C["not_encodable_combinations_skipped"] += strtoull(fr.f[1].c_str(), nullptr, 10);
            for (const auto& l : lines(fr.f[2])) { size_t t = l.find('\t'); if (t != std::string::npos) benum::setv("choice_values_exercised", l.substr(0, t)); }
            break;
        }
        ++n;
        g_sh->index = n;
        if (fr.tag == "NENC") continue;
        if (fr.tag != "REC ") die("unexpected frame " + fr.tag);
        Case c = case_of(fr);
        strncpy(g_sh->spec, c.spec.c_str(), sizeof(g_sh->spec) - 1);
        g_rank = n;
        if (part == "agree") {
            std::string gid = c.group.substr(0, c.group.find('#'));
            if (!grp.empty() && grp[0].group.substr(0, grp[0].group.find('#')) != gid) { process_group(grp); grp.clear(); }
            grp.push_back(c);
        } else {
            process(c);
        }
        if ((n & 63) == 0 && a.expired()) break;
    }
    if (part == "agree" && complete) process_group(grp);
    if (!complete && !a.expired()) die("generator stream ended unexpectedly (part " + part + ")");
    gen.stop();
    g_server.stop();
    cleanup_dir();
    g_sh->complete = complete ? 1 : 0;
    g_sh->done = 1;
    fflush(stdout);
    return 0;
}

static void run_part(const Args& a, const std::string& part) {
    g_sh = static_cast<Shared*>(mmap(nullptr, sizeof(Shared), PROT_READ | PROT_WRITE, MAP_SHARED | MAP_ANONYMOUS, -1, 0));
    memset(g_sh, 0, sizeof(Shared));
    uint64_t skip = 0;
    bool complete = true;
    const double limit = 60.0;
    for (int restarts = 0; restarts < 40; ++restarts) {
        g_sh->done = 0; g_sh->index = skip;
        fflush(stdout);
        const std::string errpath = "/dev/shm/h02-" + std::to_string(getpid()) + ".err";
        pid_t pid = fork();
        if (pid < 0) die("fork");
        if (pid == 0) {
            prctl(PR_SET_PDEATHSIG, SIGKILL);
            int fd = open(errpath.c_str(), O_WRONLY | O_CREAT | O_TRUNC, 0600);
            if (fd >= 0) { dup2(fd, 2); close(fd); }
            _exit(worker(a, part, skip));
        }
        uint64_t last = ~0ull; auto t = std::chrono::steady_clock::now(); int status = 0; bool hung = false; double lim = limit;
        for (;;) {
            if (waitpid(pid, &status, WNOHANG) == pid) break;
            if (g_sh->index != last) { last = g_sh->index; t = std::chrono::steady_clock::now(); }
            else if (std::chrono::duration<double>(std::chrono::steady_clock::now() - t).count() > lim) {
                // a case that makes no progress: before it counts as a hang it gets ten times the limit, alone (nothing
                // else runs in this worker meanwhile, so simply keep waiting)
                if (lim == limit) { lim = limit * 10; continue; }
                kill(pid, SIGKILL); waitpid(pid, &status, 0); hung = true; break;
            }
            usleep(5000);
        }
        const std::string err = benum::slurp(errpath);
        unlink(errpath.c_str());
        if (!hung && WIFEXITED(status) && WEXITSTATUS(status) == 0 && g_sh->done) { complete = g_sh->complete != 0; break; }
        if (!hung && WIFEXITED(status) && WEXITSTATUS(status) == 2) { fputs(err.c_str(), stderr); exit(2); }
        std::string what = hung ? "hang" : WIFSIGNALED(status) ? "signal:" + std::to_string(WTERMSIG(status)) : "exit:" + std::to_string(WEXITSTATUS(status));
        std::string spec = g_sh->spec;
        std::string fam = spec.substr(0, spec.find('|'));
        V.report(fam + "/crash/" + benum::death_class(what, err), "the reader died on case " + spec + " (" + what + ")", spec);
        skip = g_sh->index;      // continue behind the fatal case
        complete = false;
        if (part == "agree") break;   // (groups of records: no resuming in the middle)
    }
    benum::bound("part " + part + (a.thorough ? " (thorough plan)" : " (quick plan)") + ": every case of the generator's plan for this tier", complete);
}

// replay of one spec: build the case (or the group), evaluate, minimise, print the VIOL again
static void replay(const Args& a) {
    setup_dir(a, "replay");
    g_args = &a;
    std::string spec = a.replay_spec;
    const bool nomin = spec.compare(0, 6, "nomin:") == 0;
    if (nomin) spec = spec.substr(6);
    const std::string fam = spec.substr(0, spec.find('|'));
    server_start();
    if (fam == "agree") {
        g_server.send("GROUP\t" + spec);
        std::vector<Case> grp; Frame fr;
        while (read_frame(g_server.from, fr) && fr.tag == "REC ") grp.push_back(case_of(fr));
        process_group(grp);
    } else {
        g_server.send("ONE\t" + spec);
        Frame fr;
        if (!read_frame(g_server.from, fr)) die("generator (serve) gave no answer");
        if (fr.tag == "REC ") {
            Case c = case_of(fr);
            const Outcome o = evaluate(c);
            printf("NOTE\treplay %s: %s %s\n", spec.c_str(), o.kind.empty() ? "matches" : o.kind.c_str(), benum::clean(o.detail, 600).c_str());
            if (!o.kind.empty() && c.tri.empty()) { if (nomin) report_unminimised(c, o); else report_failure(c, o); }
        } else printf("NOTE\tspec not encodable: %s\n", fr.f.size() > 1 ? fr.f[1].c_str() : "");
    }
    g_server.stop();
    cleanup_dir();
}

int main(int argc, char** argv) {
    setenv("OSMIUM_POOL_THREADS", "2", 0);
    setenv("C02_DATA", C02_DATA, 1);          // the generator keeps its covering arrays there
    signal(SIGPIPE, SIG_IGN);
    Args a = benum::parse_args(argc, argv);
    if (a.replay) {
        // a crash during replay must still print the class key: run in a child
        fflush(stdout);
        const std::string errpath = "/dev/shm/h02-" + std::to_string(getpid()) + ".err";
        pid_t pid = fork();
        if (pid == 0) {
            int fd = open(errpath.c_str(), O_WRONLY | O_CREAT | O_TRUNC, 0600);
            if (fd >= 0) { dup2(fd, 2); close(fd); }
            replay(a); fflush(stdout); _exit(0);
        }
        int status = 0; waitpid(pid, &status, 0);
        const std::string err = benum::slurp(errpath);
        unlink(errpath.c_str());
        if (WIFEXITED(status) && WEXITSTATUS(status) == 2) { fputs(err.c_str(), stderr); return 2; }
        if (!(WIFEXITED(status) && WEXITSTATUS(status) == 0)) {
            std::string what = WIFSIGNALED(status) ? "signal:" + std::to_string(WTERMSIG(status)) : "exit:" + std::to_string(WEXITSTATUS(status));
            std::string fam = a.replay_spec.substr(0, a.replay_spec.find('|'));
            benum::viol(fam + "/crash/" + benum::death_class(what, err), "the reader died on case " + a.replay_spec, a.replay_spec);
        }
        return 0;
    }
    std::string part;
    for (size_t i = 0; i < a.rest.size(); ++i) {
        if (a.rest[i] == "--part" && i + 1 < a.rest.size()) part = a.rest[++i];
        else if (a.rest[i] == "--buffer-reader") g_buffer_via_reader = true;
    }
    if (part.empty()) { fprintf(stderr, "usage: h02 --part pbf|o5m|xml|opl|tiny|agree\n"); return 2; }
    run_part(a, part);
    C.emit();
    return 0;
}
