"""C02 - abstract OSM data sets and their canonical text (the oracle side of the check).

An abstract object is a dict:
    type 'n'|'w'|'r'|'c', id, version, timestamp, changeset, uid, user, visible, tags [(k, v)]
    n: lon, lat (fixed point 1e-7, None = location undefined)
    w: refs [id]   (optional 'reflocs' [(lon, lat)|None] - locations on ways)
    r: members [(type, ref, role)]
    c (changeset): num_changes, created, closed, num_comments, box (x1,y1,x2,y2)|None, comments [(date, uid, user, text)]
Strings are python str (valid UTF-8 without NUL by construction).

The canonical text is what the C++ harness prints from what the Reader delivered (h02.cpp, dump_*): one header line,
one line per object. Bytes outside 0x21..0x7e and the structural characters % , = @ ; : are written %xx.
"""

UNDEF = 2147483647  # osmium::Location::undefined_coordinate


class NotEncodable(Exception):
    """the data set cannot be carried by this format / with these choices (the case is skipped and counted)"""


def esc(s):
    b = s.encode("utf-8") if isinstance(s, str) else bytes(s)
    out = []
    for c in b:
        if 0x21 <= c <= 0x7e and c not in b"%,=@;:":
            out.append(chr(c))
        else:
            out.append("%%%02x" % c)
    return "".join(out)


def obj_line(o):
    t = o["type"]
    if t == "c":
        box = o.get("box")
        s = "c%d k%d s%d e%d d%d i%d u%s B%s T%s D%s" % (
            o["id"], o.get("num_changes", 0), o.get("created", 0), o.get("closed", 0), o.get("num_comments", 0),
            o["uid"], esc(o["user"]), ("%d,%d,%d,%d" % tuple(box)) if box else "-",
            ",".join(esc(k) + "=" + esc(v) for k, v in o["tags"]),
            ",".join("%d:%d:%s:%s" % (d, u, esc(un), esc(tx)) for d, u, un, tx in o.get("comments", [])))
        return s
    s = "%s%d v%d d%s c%d t%d i%d u%s T%s" % (
        t, o["id"], o["version"], "V" if o.get("visible", True) else "D", o["changeset"], o["timestamp"], o["uid"],
        esc(o["user"]), ",".join(esc(k) + "=" + esc(v) for k, v in o["tags"]))
    if t == "n":
        lon, lat = o.get("lon"), o.get("lat")
        s += " x%d y%d" % (UNDEF if lon is None else lon, UNDEF if lat is None else lat)
    elif t == "w":
        locs = o.get("reflocs") or [None] * len(o["refs"])
        s += " N" + ",".join(("%d" % r) if l is None else ("%d@%d:%d" % (r, l[0], l[1])) for r, l in zip(o["refs"], locs))
    else:
        s += " M" + ",".join("%s%d@%s" % (mt, ref, esc(role)) for mt, ref, role in o["members"])
    return s


def header_line(multi, options, boxes):
    """options: dict of every key the Header must carry; boxes: [(x1,y1,x2,y2)]"""
    return "H multi=%d opts=%s boxes=%s" % (
        1 if multi else 0,
        ";".join(esc(k) + "=" + esc(v) for k, v in sorted(options.items())),
        ";".join("%d,%d,%d,%d" % tuple(b) for b in boxes))


def dump(multi, options, boxes, objs):
    return "\n".join([header_line(multi, options, boxes)] + [obj_line(o) for o in objs]) + "\n"


def objects_part(text):
    """the object lines of a canonical dump (used for reader-vs-reader agreement)"""
    return text.split("\n", 1)[1] if "\n" in text else ""


def iso(ts):
    import time
    return time.strftime("%Y-%m-%dT%H:%M:%SZ", time.gmtime(ts))


# ------------------------------------------------------------------------------------------------
# data sets

def N(id, lon=0, lat=0, version=0, timestamp=0, changeset=0, uid=0, user="", visible=True, tags=()):
    return {"type": "n", "id": id, "version": version, "timestamp": timestamp, "changeset": changeset, "uid": uid,
            "user": user, "visible": visible, "tags": list(tags),
            "lon": lon if visible else None, "lat": lat if visible else None}


def W(id, refs=(), version=0, timestamp=0, changeset=0, uid=0, user="", visible=True, tags=(), reflocs=None):
    o = {"type": "w", "id": id, "version": version, "timestamp": timestamp, "changeset": changeset, "uid": uid,
         "user": user, "visible": visible, "tags": list(tags), "refs": list(refs)}
    if reflocs:
        o["reflocs"] = list(reflocs)
    return o


def R(id, members=(), version=0, timestamp=0, changeset=0, uid=0, user="", visible=True, tags=()):
    return {"type": "r", "id": id, "version": version, "timestamp": timestamp, "changeset": changeset, "uid": uid,
            "user": user, "visible": visible, "tags": list(tags), "members": list(members)}


def C(id, uid=0, user="", num_changes=0, created=0, closed=0, box=None, tags=(), comments=()):
    return {"type": "c", "id": id, "uid": uid, "user": user, "num_changes": num_changes, "created": created,
            "closed": closed, "num_comments": len(comments), "box": box, "tags": list(tags), "comments": list(comments)}


T0 = 1420070400  # 2015-01-01T00:00:00Z (even, so that date_granularity 2000 can carry it)
M = dict(version=1, timestamp=T0, changeset=10, uid=7, user="alice")

HDR = {"generator": "verif-C02/1.0", "timestamp": T0 + 86400, "boxes": [(-10000000, -20000000, 30000000, 40000000)]}


def _basic():
    return [
        N(10, 100000000, -50000000, version=1, timestamp=T0 + 2, changeset=101, uid=8, user="user1", tags=[("k1", "value one")]),
        N(20, 200000700, -100000300, version=2, timestamp=T0 + 4, changeset=102, uid=9, user="user2"),
        N(30, -300001400, 150000700, version=3, timestamp=T0 + 6, changeset=103, uid=8, user="user1",
          tags=[("k3", "v3"), ("name", "x y")]),
        W(7, [10, 20, 30, 10], version=1, timestamp=T0 + 100, changeset=201, uid=9, user="user2", tags=[("highway", "primary")]),
        W(14, [30, 20], version=4, timestamp=T0 + 102, changeset=202, uid=9, user="user2", tags=[("highway", "primary"), ("k1", "value one")]),
        R(3, [("w", 7, "outer"), ("n", 10, ""), ("r", 3, "sub")], version=2, timestamp=T0 + 200, changeset=301, uid=11, user="rel",
          tags=[("type", "multipolygon")]),
        R(6, [("w", 14, "outer"), ("w", 7, "outer"), ("n", 30, "outer")], version=1, timestamp=T0 + 202, changeset=302, uid=8, user="user1"),
    ]


def _nometa():
    return [
        N(1, 10000000, 10000000),
        N(2, 10000100, 10000100, tags=[("a", "b")]),
        W(1, [1, 2]),
        W(2, [], tags=[("empty", "way")]),
        R(1, [("n", 1, "r")]),
        R(2, []),
    ]


def _history():
    return [
        N(5, 10000000, 20000000, version=1, timestamp=T0, changeset=1, uid=1, user="u", tags=[("a", "1")]),
        N(5, 0, 0, version=2, timestamp=T0 + 10, changeset=2, uid=2, user="v", visible=False),
        N(5, 10000100, 20000100, version=3, timestamp=T0 + 20, changeset=3, uid=1, user="u"),
        N(6, 0, 0, version=2, timestamp=T0 + 30, changeset=4, uid=1, user="u", visible=False),
        W(5, [5, 6], version=1, timestamp=T0 + 40, changeset=5, uid=1, user="u", tags=[("h", "w")]),
        W(5, [], version=2, timestamp=T0 + 50, changeset=6, uid=2, user="v", visible=False),
        R(5, [("n", 5, "x")], version=1, timestamp=T0 + 60, changeset=7, uid=1, user="u"),
        R(5, [], version=2, timestamp=T0 + 70, changeset=8, uid=3, user="w", visible=False),
    ]


def _extremes():
    big = (1 << 63) - 2
    return [
        N(-1, -1800000000, -900000000, version=1, timestamp=2, changeset=1, uid=1, user="a"),
        N(0, 1800000000, 900000000, version=(1 << 31) - 1, timestamp=(1 << 32) - 2, changeset=(1 << 32) - 2, uid=(1 << 31) - 1, user="b"),
        N(1 << 32, -1799999999, 899999999, version=2, timestamp=(1 << 31), changeset=(1 << 31), uid=1 << 16, user="c"),
        N(big, 1, -1, version=3, timestamp=1 << 31, changeset=5, uid=3, user="d"),
        W(-(1 << 32), [big, -big, 0, 1 << 32], version=1, timestamp=4, changeset=1, uid=1, user="a"),
        W(big, [-1, 1], version=1, timestamp=6, changeset=1, uid=1, user="a"),
        R(-big, [("n", big, "x"), ("w", -big, "y"), ("r", 0, "z"), ("n", -1, "x")], version=1, timestamp=8, changeset=1, uid=1, user="a"),
        R(big, [("r", big, "")], version=1, timestamp=10, changeset=1, uid=1, user="a"),
    ]


def _id_max():
    """INT64_MAX as id / reference (the XML attribute parser rejects exactly this value -> tri-state there)"""
    big = (1 << 63) - 1
    return [N(big, 70, 70, version=1, timestamp=2, changeset=1, uid=1, user="a"),
            W(big, [big, -big], version=1, timestamp=2, changeset=1, uid=1, user="a"),
            R(big, [("n", big, "x"), ("w", -big, "y")], version=1, timestamp=2, changeset=1, uid=1, user="a")]


def _strings(fmt):
    """strings that need the format's escaping / table handling"""
    s = [" ", "a b", "a,b=c@d", "%", "%20%", "<&>\"'", "äö", "€", "\U0001f600\U0010ffff", "x" * 255, "=", ",", "@", "#", "a\tb"]
    objs = []
    for i, v in enumerate(s):
        objs.append(N(100 + i, i, -i, version=1, timestamp=T0 + 2 * i, changeset=1, uid=1 + i % 3, user=v if i % 2 else "u" + v,
                      tags=[(v, "val"), ("key", v), ("k" + v, v + "v")]))
    objs.append(N(150, 5, 5, version=1, timestamp=T0, changeset=1, uid=2, user="e", tags=[("", ""), ("e", ""), ("", "e")]))
    objs.append(W(100, [100, 101], version=1, timestamp=T0, changeset=1, uid=1, user=s[2], tags=[(v, v) for v in s[:6]]))
    objs.append(R(100, [("n", 100, v) for v in s] + [("w", 100, "")], version=1, timestamp=T0, changeset=1, uid=1, user=s[8],
                  tags=[("k", "\n"), ("nl", "a\nb\r\nc")]))
    return objs


def _long():
    """1024-byte strings (the domain's maximum) in every string position"""
    L = "L" * 1022 + "é"          # 1024 bytes of UTF-8
    big = "k" * 1024
    return [
        N(1, 1, 1, version=1, timestamp=T0, changeset=1, uid=1, user="u" * 1024, tags=[(big, "v" * 1024), ("short", "s")]),
        W(1, [1], version=1, timestamp=T0, changeset=1, uid=1, user="u" * 1024, tags=[(big, "v" * 1024)]),
        R(1, [("n", 1, "r" * 1024), ("n", 1, "r" * 1024)], version=1, timestamp=T0, changeset=1, uid=1, user="u" * 1024, tags=[(big, L)]),
    ]


def _mixed_order():
    """types alternate and ids are not sorted: block/group boundaries, delta chains with negative deltas"""
    return [
        N(50, 5, 5, **M), W(9, [50, 40], **M), N(40, -5, -5, **M), R(2, [("n", 40, "a"), ("w", 9, "b")], **M),
        W(3, [40], **M), N(45, 0, 1, **M), N(41, 1, 0, tags=[("t", "u")], **M), R(1, [("r", 2, "")], **M), N(60, 7, 7, **M),
    ]


def _many():
    objs = []
    for i in range(260):
        objs.append(N(1000 + 3 * i, 100000000 + 137 * i, 500000000 - 91 * i, version=1 + i % 3, timestamp=T0 + 2 * i, changeset=500 + i // 7,
                      uid=1 + i % 5, user="user%d" % (i % 5), tags=[("k%d" % (i % 11), "v%d" % (i % 13))] if i % 4 else []))
    for i in range(40):
        objs.append(W(2000 + i, [1000 + 3 * ((i * 7 + k) % 260) for k in range(2 + i % 5)], version=1, timestamp=T0 + 1000 + 2 * i,
                      changeset=600 + i, uid=2, user="user2", tags=[("highway", "h%d" % (i % 3))]))
    for i in range(12):
        objs.append(R(3000 + i, [("nwr"[(i + k) % 3], 1000 + 3 * k, "role%d" % (k % 4)) for k in range(1 + i % 6)], version=2,
                      timestamp=T0 + 2000 + 2 * i, changeset=700 + i, uid=3, user="user3", tags=[("type", "t%d" % (i % 2))]))
    return objs


def _single():
    return [N(1, 0, 0)]


def _single_full():
    return [N(17, 123456789, -87654321, version=3, timestamp=T0 + 12, changeset=99, uid=5, user="bob", tags=[("amenity", "pub")])]


def _anon():
    """anonymous edits (uid 0, no user name) next to named ones, and objects with a version but no timestamp"""
    return [
        N(1, 700, 700, version=1, timestamp=T0, changeset=5, uid=0, user=""),
        N(2, 1400, 700, version=2, timestamp=T0 + 2, changeset=6, uid=9, user="named", tags=[("a", "b")]),
        N(3, 2100, 700, version=3, timestamp=T0 + 4, changeset=7, uid=0, user=""),
        N(4, 2800, 700, version=5),
        N(5, 3500, 700, version=1, timestamp=T0 + 6, changeset=8, uid=9, user="named"),
        W(1, [1, 2, 3], version=1, timestamp=T0 + 8, changeset=9, uid=0, user="", tags=[("a", "b")]),
        W(2, [3, 4], version=7),
        R(1, [("n", 1, ""), ("w", 1, "")], version=1, timestamp=T0 + 10, changeset=10, uid=0, user=""),
        R(2, [("r", 1, "x")], version=2, timestamp=T0 + 12, changeset=10, uid=9, user="named"),
    ]


def _single_nouser():
    return [N(17, 123456789, -87654321, version=3, timestamp=T0 + 12, changeset=99, uid=5, user="", tags=[("amenity", "pub")])]


def _cs_max():
    """changeset id 2^32-1: rejected by string_to_changeset_id as pinned by the repo's tests -> tri-state"""
    return [N(1, 1, 1, version=1, timestamp=T0, changeset=(1 << 32) - 1, uid=1, user="u")]


def _outofrange():
    """locations outside +-180/+-90 up to the int32 extremes: OPL (documented: only valid() locations are kept) -> tri-state there"""
    return [N(1, 2000000000, 5, version=1, timestamp=T0, changeset=1, uid=1, user="u"),
            N(2, 5, -950000000, version=1, timestamp=T0, changeset=1, uid=1, user="u"),
            N(3, -2147483648, 2147483646, version=1, timestamp=T0, changeset=1, uid=1, user="u"),
            N(4, 2147483646, -2147483648, version=1, timestamp=T0, changeset=1, uid=1, user="u")]


def _waylocs():
    """locations on ways (PBF optional feature LocationsOnWays, XML lat/lon on nd, OPL nIDxLONyLAT)"""
    return [N(1, 10000000, 20000000, **M), N(2, 10000100, 20000200, **M),
            W(1, [1, 2, 1], reflocs=[(10000000, 20000000), (10000100, 20000200), (10000000, 20000000)], tags=[("a", "b")], **M),
            W(2, [2], reflocs=[(-5, 7)], **M)]


def _waylocs_partial():
    """ways on which only some node references carry a location (what add-locations-to-ways --ignore-missing-nodes writes): a reference
    without coordinates after one with coordinates, before one, between two, at both ends; OPL and XML only (PBF cannot express it)"""
    A, B, D = (10000000, 20000000), (-1234500, 899999900), (70, -70)
    return [W(1, [1, 2, 3, 4], reflocs=[A, None, B, None], tags=[("a", "b")], **M),
            W(2, [5, 6, 7], reflocs=[None, D, None], **M),
            W(3, [8, 9], reflocs=[B, None], **M),
            W(4, [10, 11, 12], reflocs=[None, None, A], **M)]


def _changesets():
    return [
        C(1, uid=1, user="u", num_changes=3, created=T0, closed=T0 + 100, box=(10000000, 20000000, 30000000, 40000000), tags=[("comment", "hi there")]),
        C(2, uid=0, user="", num_changes=0, created=T0 + 5, closed=0),
        C((1 << 32) - 2, uid=(1 << 31) - 1, user="x y", num_changes=(1 << 31) - 1, created=1, closed=(1 << 32) - 2, box=(-1800000000, -900000000, 1800000000, 900000000),
          tags=[("a", "b"), ("c=d", "e,f")]),
    ]


def _changesets_discussion():
    return [
        C(7, uid=1, user="u", num_changes=1, created=T0, closed=T0 + 1, tags=[("k", "v")],
          comments=[(T0 + 10, 5, "anna", "first comment"), (T0 + 20, 6, "böb", "second <&> 'comment'\nline 2")]),
        C(8, uid=2, user="v", num_changes=1, created=T0, closed=T0 + 1, comments=[(T0 + 30, 7, "c", "")]),
    ]


def _snap(f):
    """coordinates rounded down to multiples of 70 (x 1e-7 degrees), so that every PBF granularity of the menu
    (1, 7, 100, 1000 nanodegrees) can carry the whole data set in one block"""
    def g():
        objs = f()
        for o in objs:
            if o["type"] == "n" and o.get("lon") is not None:
                o["lon"] -= o["lon"] % 70
                o["lat"] -= o["lat"] % 70
            if o.get("reflocs"):
                o["reflocs"] = [None if l is None else (l[0] - l[0] % 70, l[1] - l[1] % 70) for l in o["reflocs"]]
        return objs
    return g


DATASETS = {
    "empty": lambda: [],
    "single": _single,
    "single_full": _snap(_single_full),
    "single_nouser": _snap(_single_nouser),
    "basic": _snap(_basic),
    "nometa": _snap(_nometa),
    "anon": _snap(_anon),
    "history": _snap(_history),
    "extremes": _extremes,
    "id_max": _id_max,
    "strings": _snap(lambda: _strings("")),
    "long": _snap(_long),
    "mixed": _snap(_mixed_order),
    "many": _snap(_many),
    "cs_max": _snap(_cs_max),
    "outofrange": _outofrange,
    "waylocs": _snap(_waylocs),
    "waylocs_partial": _snap(_waylocs_partial),
    "changesets": _changesets,
    "discussion": _changesets_discussion,
}
HISTORY = {"history"}                      # data sets with several versions / deleted objects
COMMON = ["empty", "single", "single_full", "basic", "nometa", "anon", "mixed", "many"]   # carried identically by all four formats
_cache = {}


def dataset(name, subset=None):
    """{'name', 'objects', 'history', 'header'}; subset = list of object indexes to keep (minimisation)"""
    if name not in _cache:
        _cache[name] = DATASETS[name]()
    objs = _cache[name]
    if subset is not None:
        objs = [objs[i] for i in subset if i < len(objs)]
    return {"name": name, "objects": objs, "history": name in HISTORY, "header": HDR}
