"""o5m / o5c encoder for C02 (copy of engine/spec/o5m.py plus DIMS/expect for the C02 generator), written from the format description (wiki.openstreetmap.org/wiki/O5m and the reference
program osmconvert's documented behaviour) - NOT from libosmium.

API
---
    encode(dataset, choices=None) -> bytes        a complete .o5m / .o5c file
    expect_header(dataset, choices=None) -> dict  multi, generator, timestamp, boxes as the file states them
    CHOICES                                       {choice name: [menu...]} (first entry = default)
    NotEncodable                                  the data set cannot be carried by o5m with these choices
    Writer(filetype='o5m', strings='ref')         low level: .start() .reset() .timestamp(ts) .bbox(box)
                                                  .object(obj) .raw(type_byte, payload) .end() .getvalue()
                                                  .stored (number of string-table insertions so far)
    uvarint(n), svarint(n)

Format summary (all numbers are base-128 varints, low group first; signed numbers put the sign in bit 0:
n >= 0 -> 2n, n < 0 -> -2n-1)
    file     := 0xff  0xe0 0x04 'o5m2'|'o5c2'  dataset*  [0xfe]
    dataset  := type(1 byte < 0xf0)  length(uvarint)  payload      | 0xff (reset) | 0xfe (end of file)
    0x10 node      id(sdelta) info [lon(sdelta) lat(sdelta) tagpair*]          (100 nanodegree units)
    0x11 way       id(sdelta) info [reflen(uvarint) ref(sdelta)* tagpair*]
    0x12 relation  id(sdelta) info [reflen(uvarint) (ref(sdelta per member type) string('0'|'1'|'2' + role))* tagpair*]
    info     := 0x00 | version(uvarint != 0) timestamp(sdelta) [ -- only if the timestamp is not 0:
                changeset(sdelta) pair(uid as uvarint bytes, user) ]
    an object whose payload ends after `info` is a deleted object (.o5c only)
    0xdb bounding box: x1 y1 x2 y2 (svarint, not delta coded)     0xdc file timestamp: svarint seconds
    0xee sync, 0xef jump, other types < 0xf0: skipped by their length
    strings: 0x00 s1 0x00 [s2 0x00] inline, or uvarint N >= 1 = the N-th most recently stored string (pair).
    Every inline string (pair) whose characters (both strings together, terminators not counted) number at
    most 250 is stored in a table of 15000 entries (oldest entry overwritten). The anonymous user is the
    pair ("", ""). 0xff resets the table and every delta counter to 0.
    delta counters: id, timestamp, changeset, lon, lat, way node refs, and one per member type for
    relation member refs.

Choices
-------
    filetype   o5m | o5c
    strings    ref | inline | mixed | mixed_oldest   back-reference whenever possible (newest matching entry) /
                                                     never / every second opportunity / ditto, oldest valid entry
    reset      types | every | start                 0xff before every change of object type (and at the start) /
                                                     before every object / only at the start of the file
    extras     none | sync_jump | unknown            jump+sync+reset before every type section / unknown data
                                                     sets (types 0x40, 0xdd) before every object
    header     full | none | ts_first                0xdb bbox + 0xdc timestamp (if the data set has them), bbox
                                                     first / neither / timestamp first
    end        fe | none                             end-of-file marker present or not
"""
from model import NotEncodable, iso


CHOICES = {
    "filetype": ["o5m", "o5c"],
    "strings": ["ref", "inline", "mixed", "mixed_oldest"],
    "reset": ["types", "every", "start"],
    "extras": ["none", "sync_jump", "unknown"],
    "header": ["full", "none", "ts_first"],
    "end": ["fe", "none"],
}

TABLE_SIZE = 15000
MAX_STORED_CHARS = 250


def uvarint(n):
    if n < 0 or n >= 1 << 64:
        raise NotEncodable("unsigned varint out of range")
    out = bytearray()
    while n > 0x7f:
        out.append((n & 0x7f) | 0x80)
        n >>= 7
    out.append(n)
    return bytes(out)


def svarint(n):
    if not -(1 << 63) <= n < (1 << 63):
        raise NotEncodable("signed varint out of range")
    return uvarint(n * 2 if n >= 0 else -n * 2 - 1)


def _b(s):
    return s.encode("utf-8") if isinstance(s, str) else s


class Writer:
    def __init__(self, filetype="o5m", strings="ref"):
        self.out = bytearray()
        self.filetype = filetype
        self.strings = strings
        self.opportunity = 0
        self.stored = 0
        self._clear()

    # -- state shared with the decoder
    def _clear(self):
        self.table = []          # stored strings in order of insertion (content incl. terminators)
        self.where = {}          # content -> list of insertion numbers
        self.d_id = self.d_ts = self.d_cs = self.d_lon = self.d_lat = self.d_wref = 0
        self.d_mref = {"n": 0, "w": 0, "r": 0}

    def start(self):
        self.out += b"\xff\xe0\x04o5" + (b"c" if self.filetype == "o5c" else b"m") + b"2"
        self._clear()
        return self

    def reset(self):
        self.out.append(0xff)
        self._clear()
        return self

    def end(self):
        self.out.append(0xfe)
        return self

    def raw(self, type_byte, payload):
        assert type_byte < 0xf0
        self.out.append(type_byte)
        self.out += uvarint(len(payload)) + payload
        return self

    def getvalue(self):
        return bytes(self.out)

    # -- strings
    def _string(self, s1, s2=None):
        s1 = _b(s1)
        content = s1 + b"\x00"
        chars = len(s1)
        if s2 is not None:
            s2 = _b(s2)
            content += s2 + b"\x00"
            chars += len(s2)
        if b"\x00" in s1 or (s2 is not None and b"\x00" in s2):
            raise NotEncodable("NUL inside a string")
        n = len(self.table)
        valid = [j for j in self.where.get(content, ()) if n - j <= TABLE_SIZE]
        if valid and self.strings != "inline":
            self.opportunity += 1
            if self.strings == "ref" or self.opportunity % 2 == 1:
                j = valid[0] if self.strings == "mixed_oldest" else valid[-1]
                return uvarint(n - j)
        if chars <= MAX_STORED_CHARS:
            self.where.setdefault(content, []).append(n)
            self.table.append(content)
            self.stored += 1
        return b"\x00" + content

    def _user(self, uid, user):
        if uid == 0:
            if user:
                raise NotEncodable("anonymous user with a name")
            return self._string(b"", b"")
        return self._string(uvarint(uid), user)

    def _info(self, o):
        if o["version"] == 0:
            if o["timestamp"] or o["changeset"] or o["uid"] or o["user"]:
                raise NotEncodable("author information without version")
            return b"\x00"
        out = uvarint(o["version"]) + svarint(o["timestamp"] - self.d_ts)
        self.d_ts = o["timestamp"]
        if o["timestamp"] == 0:
            if o["changeset"] or o["uid"] or o["user"]:
                raise NotEncodable("changeset/user without timestamp")
            return out
        out += svarint(o["changeset"] - self.d_cs)
        self.d_cs = o["changeset"]
        return out + self._user(o["uid"], o["user"])

    def _tags(self, o):
        return b"".join(self._string(k, v) for k, v in o["tags"])

    def object_payload(self, o):
        if o["type"] not in "nwr" or o.get("reflocs") or (o["type"] == "n" and o.get("visible", True) and o["lon"] is None):
            raise NotEncodable("o5m carries nodes with location, ways without node locations and relations only")
        p = svarint(o["id"] - self.d_id)
        self.d_id = o["id"]
        p += self._info(o)
        if not o.get("visible", True):
            if self.filetype != "o5c":
                raise NotEncodable("deleted objects exist only in .o5c")
            if o["tags"] or o.get("refs") or o.get("members"):
                raise NotEncodable("a deleted o5c object has no body")
            return p
        if o["type"] == "n":
            p += svarint(o["lon"] - self.d_lon) + svarint(o["lat"] - self.d_lat)
            self.d_lon, self.d_lat = o["lon"], o["lat"]
        elif o["type"] == "w":
            refs = b""
            for r in o["refs"]:
                refs += svarint(r - self.d_wref)
                self.d_wref = r
            p += uvarint(len(refs)) + refs
        else:
            refs = b""
            for t, r, role in o["members"]:
                refs += svarint(r - self.d_mref[t])
                self.d_mref[t] = r
                refs += self._string(b"012"["nwr".index(t):][:1] + _b(role))
            p += uvarint(len(refs)) + refs
        return p + self._tags(o)

    def object(self, o):
        return self.raw({"n": 0x10, "w": 0x11, "r": 0x12}[o["type"]], self.object_payload(o))

    def timestamp(self, ts):
        return self.raw(0xdc, svarint(ts))

    def bbox(self, box):
        return self.raw(0xdb, b"".join(svarint(v) for v in box))


def resolve(choices):
    c = {k: v[0] for k, v in CHOICES.items()}
    if choices:
        for k, v in choices.items():
            if k not in c:
                raise KeyError("unknown o5m choice " + k)
            c[k] = v
    return c


DIMS = [(k, v) for k, v in CHOICES.items()]


def expect(dataset, choices=None):
    """(multi, options, boxes) of the osmium::io::Header the file describes"""
    c = resolve(choices)
    h = dataset.get("header", {})
    on = c["header"] != "none"
    opts = {}
    if on and h.get("timestamp"):
        opts["o5m_timestamp"] = iso(h["timestamp"])
        opts["timestamp"] = iso(h["timestamp"])
    return c["filetype"] == "o5c", opts, (list(h.get("boxes", []))[:1] if on else [])


def ambiguous(dataset, choices=None):
    """True if the file relies on a point the format description leaves open: without a reset between the way
    section and the relation section it is not spelled out whether way node references and relation
    node-member references share one delta counter (this encoder keeps them separate)."""
    c = resolve(choices)
    if c["reset"] != "start" or c["extras"] == "sync_jump":
        return False
    seen_wayref = False
    for o in dataset["objects"]:
        if o["type"] == "w" and o.get("refs"):
            seen_wayref = True
        if o["type"] == "r" and seen_wayref and any(t == "n" for t, _, _ in o.get("members", [])):
            return True
    return False


def encode(dataset, choices=None):
    c = resolve(choices)
    if dataset.get("history") and c["filetype"] != "o5c":
        raise NotEncodable("history data needs .o5c")
    w = Writer(c["filetype"], c["strings"]).start()
    h = dataset.get("header", {})
    if c["header"] != "none":
        items = []
        if h.get("boxes"):
            items.append(("b", h["boxes"][0]))
        if h.get("timestamp"):
            items.append(("t", h["timestamp"]))
        if c["header"] == "ts_first":
            items.reverse()
        for k, v in items:
            if k == "b":
                w.bbox(v)
            else:
                w.timestamp(v)
    prev = None
    for o in dataset["objects"]:
        newtype = o["type"] != prev
        if newtype and c["extras"] == "sync_jump":
            w.raw(0xef, b"\x00\x10\x00\x00\x00\x20\x00\x00")
            w.raw(0xee, b"\x00" * 7)
            w.reset()
        elif c["reset"] == "every" or (c["reset"] == "types" and newtype):
            w.reset()
        if c["extras"] == "unknown":
            w.raw(0x40, b"\x01\x02\x03")
            w.raw(0xdd, b"")
        w.object(o)
        prev = o["type"]
    if c["end"] == "fe":
        w.end()
    return w.getvalue()
