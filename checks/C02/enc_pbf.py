"""OSM PBF encoder for C02, extended copy of engine/spec/pbf.py (written from the protobuf encoding guide and
fileformat.proto / osmformat.proto as published on wiki.openstreetmap.org/wiki/PBF_Format - NOT from libosmium).

    encode(dataset, choices) -> bytes         a complete .osm.pbf file
    expect(dataset, choices) -> (multi, options, boxes)   what the file's header block states
    DIMS                                      [(choice name, [menu...])], first entry = default

File layout (fileformat.proto):   repeat { int32 big-endian length of BlobHeader ; BlobHeader ; Blob }
    BlobHeader { required string type = 1; optional bytes indexdata = 2; required int32 datasize = 3; }
    Blob { optional bytes raw = 1; optional int32 raw_size = 2; optional bytes zlib_data = 3; optional bytes lzma_data = 4;
           optional bytes OBSOLETE_bzip2_data = 5; optional bytes lz4_data = 6; optional bytes zstd_data = 7; }
    limits: BlobHeader < 64 KiB, uncompressed Blob content < 32 MiB.
First blob type "OSMHeader" (HeaderBlock), all following "OSMData" (PrimitiveBlock).

Choices (all free encoding choices: two files that differ only in them denote the same data; `header` also decides
how much of the data set's header is written at all - expect() tells what)
    nodes            dense | plain | mixed        DenseNodes, plain Node messages, or alternating groups
    blob             raw | zlib | lz4 | raw+size | zlib0    Blob framing of every blob (zlib0: stored deflate blocks)
    granularity      100 | 1 | 1000 | 7           PrimitiveBlock.granularity (nanodegrees per unit)
    offset           zero | plus | minus | large  base value of lat_offset/lon_offset (adjusted per block so that every
                                                  coordinate of the block is exactly representable)
    date_granularity 1000 | 1 | 2000              PrimitiveBlock.date_granularity (ms per unit)
    info             std | full | sparse | minus1 std: version,timestamp,changeset,uid,user_sid always, visible only in
                                                  history data; full: all six always; sparse: only the fields that differ
                                                  from the reader-side default (0, "", true), Info/DenseInfo left out when
                                                  nothing remains; minus1: like std, but version 0 is written as the proto
                                                  default -1 ("no version", as Osmosis does)
    order            canonical | reversed         field order inside every message (repeated fields keep their relative order)
    unknown          none | mixed                 unknown fields (numbers 40..43, all four wire types) at the start and end
                                                  of every message
    defaults         omit | explicit              granularity=100 / offsets=0 / date_granularity=1000 written or left out
    grouping         block | group_per_object | block_per_type | block_per_object
    stringtable      compact | padded | zero_nonblank   padded: unused entries and one fresh entry per use (duplicates);
                                                  zero_nonblank: entry 0 holds a non-empty string and is never referenced
    empty            none | groups | blocks       empty PrimitiveGroups / object-free PrimitiveBlocks in between
    dense_kv         auto | always                keys_vals of a DenseNodes without any tag: left out / all zeros
    header           rich | min                   rich: bbox, optional features, writingprogram, source,
                                                  osmosis_replication_*; min: required_features only
    hdrsize          0 | N                        0: no indexdata; N: indexdata sized so that every BlobHeader is exactly
                                                  N bytes long (N < 64 KiB)
    packed           one | split                  (tri-state) every packed field with >= 2 elements is written as two
                                                  length-delimited records - legal protobuf, never produced by real writers
"""
import ctypes
import struct
import zlib

from model import NotEncodable, iso

DIMS = [
    ("nodes", ["dense", "plain", "mixed"]),
    ("blob", ["raw", "zlib", "lz4", "raw+size", "zlib0"]),
    ("granularity", [100, 1, 1000, 7]),
    ("offset", ["zero", "plus", "minus", "large"]),
    ("date_granularity", [1000, 1, 2000]),
    ("info", ["std", "full", "sparse", "minus1"]),
    ("order", ["canonical", "reversed"]),
    ("unknown", ["none", "mixed"]),
    ("defaults", ["omit", "explicit"]),
    ("grouping", ["block", "group_per_object", "block_per_type", "block_per_object"]),
    ("stringtable", ["compact", "padded", "zero_nonblank"]),
    ("empty", ["none", "groups", "blocks"]),
    ("dense_kv", ["auto", "always"]),
    ("header", ["rich", "min"]),
    ("hdrsize", [0]),
    ("packed", ["one"]),
]
DEFAULTS = {k: v[0] for k, v in DIMS}

OFFSET_BASE = {  # (lat_offset, lon_offset) in nanodegrees before the divisibility adjustment
    "zero": (0, 0),
    "plus": (1000000000, 2000000300),
    "minus": (-500000100, -700000300),
    "large": (89000000000, -179000000000),
}

MAX_BLOB_HEADER = 64 * 1024               # "must be less than 64 KiB"
MAX_BLOB_UNCOMPRESSED = 32 * 1024 * 1024  # "must be less than 32 MiB"

# --------------------------------------------------------------------------------------------
# protobuf wire format

_M64 = (1 << 64) - 1


def varint(n):
    """base-128 varint of an unsigned value; negative numbers are taken as 64-bit two's complement"""
    n &= _M64
    out = bytearray()
    while n > 0x7f:
        out.append((n & 0x7f) | 0x80)
        n >>= 7
    out.append(n)
    return bytes(out)


def zigzag(n):
    return ((n << 1) ^ (n >> 63)) & _M64


def _key(field, wire):
    return varint((field << 3) | wire)


def f_varint(field, value):
    return _key(field, 0) + varint(value)


def f_sint(field, value):
    if not -(1 << 63) <= value < (1 << 63):
        raise NotEncodable("sint64 out of range (delta overflow)")
    return _key(field, 0) + varint(zigzag(value))


def f_bytes(field, data):
    if isinstance(data, str):
        data = data.encode("utf-8")
    return _key(field, 2) + varint(len(data)) + data


def f_fixed64(field, value):
    return _key(field, 1) + struct.pack("<Q", value & _M64)


def f_fixed32(field, value):
    return _key(field, 5) + struct.pack("<I", value & 0xffffffff)


_SPLIT = False   # set by encode() from the `packed` choice


def f_packed(field, values, signed=False):
    if signed:
        for v in values:
            if not -(1 << 63) <= v < (1 << 63):
                raise NotEncodable("sint64 out of range (delta overflow)")
        parts = [varint(zigzag(v)) for v in values]
    else:
        parts = [varint(v) for v in values]
    if _SPLIT and len(parts) >= 2:
        h = len(parts) // 2
        return f_bytes(field, b"".join(parts[:h])) + f_bytes(field, b"".join(parts[h:]))
    return f_bytes(field, b"".join(parts))


def _unknown_front():
    return [(40, f_varint(40, 300)), (41, f_bytes(41, b"unknown\x00\xff"))]


def _unknown_back():
    return [(42, f_fixed64(42, 0x0102030405060708)), (43, f_fixed32(43, 0xdeadbeef)), (41, f_bytes(41, b""))]


def message(fields, c):
    """fields: list of (field number, encoded field). Applies the `order` and `unknown` choices."""
    fields = [f for f in fields if f is not None]
    if c["order"] == "reversed":
        nums = []
        for n, _ in fields:
            if n not in nums:
                nums.append(n)
        fields = [f for n in reversed(nums) for f in fields if f[0] == n]
    if c["unknown"] == "mixed":
        fields = _unknown_front() + fields + _unknown_back()
    return b"".join(b for _, b in fields)


# --------------------------------------------------------------------------------------------
# blobs

_lz4 = None


def lz4_block(data):
    """LZ4 block format (no frame), as required for Blob.lz4_data"""
    global _lz4
    if _lz4 is None:
        _lz4 = ctypes.CDLL("liblz4.so.1")
        _lz4.LZ4_compressBound.restype = ctypes.c_int
        _lz4.LZ4_compressBound.argtypes = [ctypes.c_int]
        _lz4.LZ4_compress_default.restype = ctypes.c_int
        _lz4.LZ4_compress_default.argtypes = [ctypes.c_char_p, ctypes.c_char_p, ctypes.c_int, ctypes.c_int]
    cap = _lz4.LZ4_compressBound(len(data))
    dst = ctypes.create_string_buffer(cap)
    n = _lz4.LZ4_compress_default(data, dst, len(data), cap)
    if n <= 0:
        raise RuntimeError("LZ4_compress_default failed")
    return dst.raw[:n]


def blob(payload, c):
    kind = c["blob"]
    if len(payload) >= MAX_BLOB_UNCOMPRESSED:
        raise NotEncodable("blob content must be < 32 MiB")
    if kind == "raw":
        fields = [(1, f_bytes(1, payload))]
    elif kind == "raw+size":
        fields = [(1, f_bytes(1, payload)), (2, f_varint(2, len(payload)))]
    elif kind == "zlib":
        fields = [(2, f_varint(2, len(payload))), (3, f_bytes(3, zlib.compress(payload, 6 if len(payload) < 1 << 20 else 1)))]
    elif kind == "zlib0":
        fields = [(2, f_varint(2, len(payload))), (3, f_bytes(3, zlib.compress(payload, 0)))]
    elif kind == "lz4":
        fields = [(2, f_varint(2, len(payload))), (6, f_bytes(6, lz4_block(payload)))]
    else:
        raise ValueError(kind)
    return message(fields, c)


def blob_header(btype, datasize, c):
    base = [(1, f_bytes(1, btype)), None, (3, f_varint(3, datasize))]
    want = int(c["hdrsize"])
    if not want:
        return message(base, c)
    if want >= MAX_BLOB_HEADER:
        raise NotEncodable("BlobHeader must be < 64 KiB")
    plain = len(message(base, c))
    # indexdata field = 1 key byte + varint(L) + L bytes; pick L (and if a varint boundary gets in the
    # way, one extra unknown 3-byte varint field) so that the total is exactly `want`
    for filler in (b"", f_varint(44, 0)):
        room = want - plain - len(filler)
        for lenlen in (1, 2, 3):
            L = room - 1 - lenlen
            if L >= 0 and len(varint(L)) == lenlen:
                idx = bytes((i * 7 + 3) & 0xff for i in range(L))
                fields = [base[0], (2, f_bytes(2, idx)), base[2]]
                if filler:
                    fields.append((44, filler))
                out = message(fields, c)
                assert len(out) == want, (len(out), want)
                return out
    raise NotEncodable("BlobHeader of %d bytes not constructible" % want)


def frame(btype, payload, c):
    b = blob(payload, c)
    h = blob_header(btype, len(b), c)
    if len(h) >= MAX_BLOB_HEADER:
        raise NotEncodable("BlobHeader must be < 64 KiB")
    return struct.pack(">I", len(h)) + h + b


# --------------------------------------------------------------------------------------------
# HeaderBlock

def resolve(choices):
    c = dict(DEFAULTS)
    if choices:
        for k, v in choices.items():
            if k not in c:
                raise KeyError("unknown pbf choice " + k)
            c[k] = v
    c["granularity"] = int(c["granularity"])
    c["date_granularity"] = int(c["date_granularity"])
    return c


def _has_reflocs(dataset):
    return any(o.get("reflocs") for o in dataset["objects"])


def _uses_dense(dataset, c):
    # the required feature "DenseNodes" is listed iff a DenseNodes group is written
    if not any(o["type"] == "n" for o in dataset["objects"]):
        return False
    if c["nodes"] == "dense":
        return True
    if c["nodes"] == "plain":
        return False
    parts = _parts(dataset["objects"], c)
    return any(d for p in parts for ch, d in _groups_of_block(p, c) if ch[0]["type"] == "n")


def expect(dataset, choices=None):
    """(multi, options, boxes) of the osmium::io::Header the file describes"""
    c = resolve(choices)
    h = dataset.get("header", {})
    rich = c["header"] == "rich"
    opts = {}
    if _uses_dense(dataset, c):
        opts["pbf_dense_nodes"] = "true"
    boxes = []
    if rich:
        feats = ["verif-optional-feature", "Sort.Type_then_ID"] + (["LocationsOnWays"] if _has_reflocs(dataset) else [])
        for i, f in enumerate(feats):
            opts["pbf_optional_feature_%d" % i] = f
        opts["sorting"] = "Type_then_ID"
        if h.get("generator"):
            opts["generator"] = h["generator"]
        if h.get("timestamp"):
            opts["osmosis_replication_timestamp"] = iso(h["timestamp"])
            opts["timestamp"] = iso(h["timestamp"])
            opts["osmosis_replication_sequence_number"] = "4711"
            opts["osmosis_replication_base_url"] = "https://example.org/replication"
        boxes = list(h.get("boxes", []))[:1]
    return bool(dataset.get("history")), opts, boxes


def header_block(dataset, c, uses_dense):
    h = dataset.get("header", {})
    f = []
    rich = c["header"] == "rich"
    if rich and h.get("boxes"):
        x1, y1, x2, y2 = h["boxes"][0]         # fixed point 1e-7 degrees -> nanodegrees
        bbox = message([(1, f_sint(1, x1 * 100)), (2, f_sint(2, x2 * 100)), (3, f_sint(3, y2 * 100)), (4, f_sint(4, y1 * 100))], c)
        f.append((1, f_bytes(1, bbox)))
    f.append((4, f_bytes(4, "OsmSchema-V0.6")))
    if uses_dense:
        f.append((4, f_bytes(4, "DenseNodes")))
    if dataset.get("history"):
        f.append((4, f_bytes(4, "HistoricalInformation")))
    if rich:
        f.append((5, f_bytes(5, "verif-optional-feature")))
        f.append((5, f_bytes(5, "Sort.Type_then_ID")))
        if _has_reflocs(dataset):
            f.append((5, f_bytes(5, "LocationsOnWays")))
        if h.get("generator"):
            f.append((16, f_bytes(16, h["generator"])))
        f.append((17, f_bytes(17, "verif spec encoder")))
        if h.get("timestamp"):
            f.append((32, f_varint(32, h["timestamp"])))
            f.append((33, f_varint(33, 4711)))
            f.append((34, f_bytes(34, "https://example.org/replication")))
    return message(f, c)


# --------------------------------------------------------------------------------------------
# PrimitiveBlock

class _StringTable:
    """Index 0 is the delimiter of DenseNodes.keys_vals and is never used for a tag key or value (an empty key or
    value gets an entry of its own); user_sid / roles_sid 0 stand for the blank first entry in `compact` mode."""

    def __init__(self, mode):
        self.mode = mode
        self.entries = [b"" if mode != "zero_nonblank" else b"entry zero is not blank"]
        self.index = {}
        if mode == "padded":
            self.entries.append(b"never used")

    def get(self, s, tag=False):
        b = s.encode("utf-8") if isinstance(s, str) else s
        if self.mode == "padded":
            self.entries.append(b)     # a fresh entry for every use -> duplicates
            i = len(self.entries) - 1
            if i % 3 == 0:
                self.entries.append(b"unused-%d" % i)
            return i
        if b == b"" and not tag and self.mode == "compact":
            return 0
        i = self.index.get(b)
        if i is None:
            self.entries.append(b)
            i = self.index[b] = len(self.entries) - 1
        return i

    def encode(self, c):
        return message([(1, f_bytes(1, e)) for e in self.entries], c)


def _ts_units(ts, c):
    ms = ts * 1000
    if ms % c["date_granularity"]:
        raise NotEncodable("timestamp not a multiple of date_granularity")
    return ms // c["date_granularity"]


def _ver(o, c):
    return -1 if (c["info"] == "minus1" and o["version"] == 0) else o["version"]


def _info(o, st, c, history):
    mode = c["info"]
    f = []
    vis = o.get("visible", True)
    if mode == "sparse":
        if o["version"]:
            f.append((1, f_varint(1, o["version"])))
        if o["timestamp"]:
            f.append((2, f_varint(2, _ts_units(o["timestamp"], c))))
        if o["changeset"]:
            f.append((3, f_varint(3, o["changeset"])))
        if o["uid"]:
            f.append((4, f_varint(4, o["uid"])))
        if o["user"]:
            f.append((5, f_varint(5, st.get(o["user"]))))
        if not vis:
            f.append((6, f_varint(6, 0)))
        if not f:
            return None
    else:
        f = [(1, f_varint(1, _ver(o, c))), (2, f_varint(2, _ts_units(o["timestamp"], c))),
             (3, f_varint(3, o["changeset"])), (4, f_varint(4, o["uid"])), (5, f_varint(5, st.get(o["user"])))]
        if mode == "full" or history:
            f.append((6, f_varint(6, 1 if vis else 0)))
    return message(f, c)


def _tags(o, st):
    ks = [st.get(k, True) for k, _ in o["tags"]]
    vs = [st.get(v, True) for _, v in o["tags"]]
    return ks, vs


class _Block:
    """one PrimitiveBlock: offsets are chosen so that every coordinate in it is exactly representable"""

    def __init__(self, objs, c):
        self.c = c
        g = c["granularity"]
        blat, blon = OFFSET_BASE[c["offset"]]
        pts = [(o["lon"], o["lat"]) for o in objs if o["type"] == "n" and o.get("visible", True) and o["lon"] is not None]
        for o in objs:
            if o["type"] == "w" and o.get("reflocs"):
                pts += [l for l in o["reflocs"]]
        if pts:
            blat += (100 * pts[0][1] - blat) % g
            blon += (100 * pts[0][0] - blon) % g
            for lon, lat in pts:
                if (100 * lat - blat) % g or (100 * lon - blon) % g:
                    raise NotEncodable("coordinates of this block not representable with granularity %d" % g)
        self.lat_off, self.lon_off, self.g = blat, blon, g

    def ulat(self, v):
        return (100 * v - self.lat_off) // self.g

    def ulon(self, v):
        return (100 * v - self.lon_off) // self.g

    def lat(self, o):
        if not o.get("visible", True):
            return 0
        if o["lat"] is None:
            raise NotEncodable("visible node without location")
        return self.ulat(o["lat"])

    def lon(self, o):
        if not o.get("visible", True):
            return 0
        if o["lon"] is None:
            raise NotEncodable("visible node without location")
        return self.ulon(o["lon"])


def _plain_node(o, st, blk, c, history):
    ks, vs = _tags(o, st)
    f = [(1, f_sint(1, o["id"]))]
    if ks:
        f += [(2, f_packed(2, ks)), (3, f_packed(3, vs))]
    info = _info(o, st, c, history)
    if info is not None:
        f.append((4, f_bytes(4, info)))
    f += [(8, f_sint(8, blk.lat(o))), (9, f_sint(9, blk.lon(o)))]
    return message(f, c)


def _delta(values):
    out, prev = [], 0
    for v in values:
        out.append(v - prev)
        prev = v
    return out


def _dense(nodes, st, blk, c, history):
    f = [(1, f_packed(1, _delta([o["id"] for o in nodes]), signed=True))]
    mode = c["info"]
    vers = [_ver(o, c) for o in nodes]
    tss = [_ts_units(o["timestamp"], c) for o in nodes]
    css = [o["changeset"] for o in nodes]
    uids = [o["uid"] for o in nodes]
    viss = [1 if o.get("visible", True) else 0 for o in nodes]
    di = []
    if mode == "sparse":
        if any(vers):
            di.append((1, f_packed(1, vers)))
        if any(tss):
            di.append((2, f_packed(2, _delta(tss), signed=True)))
        if any(css):
            di.append((3, f_packed(3, _delta(css), signed=True)))
        if any(uids):
            di.append((4, f_packed(4, _delta(uids), signed=True)))
        if any(o["user"] for o in nodes):
            di.append((5, f_packed(5, _delta([st.get(o["user"]) for o in nodes]), signed=True)))
        if not all(viss):
            di.append((6, f_packed(6, viss)))
    else:
        di = [(1, f_packed(1, vers)), (2, f_packed(2, _delta(tss), signed=True)), (3, f_packed(3, _delta(css), signed=True)),
              (4, f_packed(4, _delta(uids), signed=True)),
              (5, f_packed(5, _delta([st.get(o["user"]) for o in nodes]), signed=True))]
        if mode == "full" or history:
            di.append((6, f_packed(6, viss)))
    if di:
        f.append((5, f_bytes(5, message(di, c))))
    f.append((8, f_packed(8, _delta([blk.lat(o) for o in nodes]), signed=True)))
    f.append((9, f_packed(9, _delta([blk.lon(o) for o in nodes]), signed=True)))
    if any(o["tags"] for o in nodes) or c["dense_kv"] == "always":
        kv = []
        for o in nodes:
            for k, v in o["tags"]:
                kv.append(st.get(k, True))
                kv.append(st.get(v, True))
            kv.append(0)
        f.append((10, f_packed(10, kv)))
    return message(f, c)


def _way(o, st, blk, c, history):
    ks, vs = _tags(o, st)
    f = [(1, f_varint(1, o["id"]))]
    if ks:
        f += [(2, f_packed(2, ks)), (3, f_packed(3, vs))]
    info = _info(o, st, c, history)
    if info is not None:
        f.append((4, f_bytes(4, info)))
    if o["refs"]:
        f.append((8, f_packed(8, _delta(o["refs"]), signed=True)))
        if o.get("reflocs"):     # optional feature LocationsOnWays: lat = 9, lon = 10, both packed sint64 delta coded
            if any(l is None for l in o["reflocs"]):
                raise NotEncodable("way with only some node locations")
            f.append((9, f_packed(9, _delta([blk.ulat(l[1]) for l in o["reflocs"]]), signed=True)))
            f.append((10, f_packed(10, _delta([blk.ulon(l[0]) for l in o["reflocs"]]), signed=True)))
    return message(f, c)


_MT = {"n": 0, "w": 1, "r": 2}


def _relation(o, st, c, history):
    ks, vs = _tags(o, st)
    f = [(1, f_varint(1, o["id"]))]
    if ks:
        f += [(2, f_packed(2, ks)), (3, f_packed(3, vs))]
    info = _info(o, st, c, history)
    if info is not None:
        f.append((4, f_bytes(4, info)))
    if o["members"]:
        f.append((8, f_packed(8, [st.get(role) for _, _, role in o["members"]])))
        f.append((9, f_packed(9, _delta([ref for _, ref, _ in o["members"]]), signed=True)))
        f.append((10, f_packed(10, [_MT[t] for t, _, _ in o["members"]])))
    return message(f, c)


def _runs(objs):
    """consecutive runs of one object type"""
    out = []
    for o in objs:
        if out and out[-1][0]["type"] == o["type"]:
            out[-1].append(o)
        else:
            out.append([o])
    return out


def _groups_of_block(objs, c):
    """list of groups; a group is a list of objects of one type plus a flag dense/plain (nodes)"""
    per_object = c["grouping"] in ("group_per_object", "block_per_object")
    groups = []
    for run in _runs(objs):
        chunks = [[o] for o in run] if per_object else [run]
        if run[0]["type"] == "n" and c["nodes"] == "mixed" and not per_object:
            chunks = [run[i:i + 2] for i in range(0, len(run), 2)]
        for i, ch in enumerate(chunks):
            dense = False
            if ch[0]["type"] == "n":
                dense = c["nodes"] == "dense" or (c["nodes"] == "mixed" and (len(groups) + 1) % 2 == 0)
            groups.append((ch, dense))
    return groups


def _primitive_block(objs, c, history):
    st = _StringTable(c["stringtable"])
    blk = _Block(objs, c)
    gmsgs = []
    for ch, dense in _groups_of_block(objs, c):
        t = ch[0]["type"]
        if t == "n" and dense:
            g = [(2, f_bytes(2, _dense(ch, st, blk, c, history)))]
        elif t == "n":
            g = [(1, f_bytes(1, _plain_node(o, st, blk, c, history))) for o in ch]
        elif t == "w":
            g = [(3, f_bytes(3, _way(o, st, blk, c, history))) for o in ch]
        elif t == "r":
            g = [(4, f_bytes(4, _relation(o, st, c, history))) for o in ch]
        else:
            raise NotEncodable("PBF carries nodes, ways and relations only")
        if c["empty"] == "groups":
            gmsgs.append(message([], c))
        gmsgs.append(message(g, c))
    if c["empty"] == "groups":
        gmsgs.append(message([], c))
    f = [(1, f_bytes(1, st.encode(c)))]
    f += [(2, f_bytes(2, g)) for g in gmsgs]
    explicit = c["defaults"] == "explicit"
    if blk.g != 100 or explicit:
        f.append((17, f_varint(17, blk.g)))
    if c["date_granularity"] != 1000 or explicit:
        f.append((18, f_varint(18, c["date_granularity"])))
    if blk.lat_off or explicit:
        f.append((19, f_varint(19, blk.lat_off)))
    if blk.lon_off or explicit:
        f.append((20, f_varint(20, blk.lon_off)))
    return message(f, c)


def _empty_blocks(c):
    st = message([(1, f_bytes(1, b""))], c)
    return [message([(1, f_bytes(1, st))], c),                                   # string table only
            message([(1, f_bytes(1, st)), (2, f_bytes(2, message([], c)))], c)]  # plus an empty group


def _parts(objs, c):
    if c["grouping"] in ("block", "group_per_object"):
        return [objs] if objs else []
    if c["grouping"] == "block_per_type":
        return _runs(objs)
    return [[o] for o in objs]


def encode(dataset, choices=None):
    global _SPLIT
    c = resolve(choices)
    _SPLIT = c["packed"] == "split"
    try:
        objs = dataset["objects"]
        history = bool(dataset.get("history"))
        blocks = []
        eb = _empty_blocks(c) if c["empty"] == "blocks" else []
        if eb:
            blocks.append(eb[0])
        for p in _parts(objs, c):
            blocks.append(_primitive_block(p, c, history))
            if eb:
                blocks.append(eb[1])
        out = [frame("OSMHeader", header_block(dataset, c, _uses_dense(dataset, c)), c)]
        for b in blocks:
            out.append(frame("OSMData", b, c))
        return b"".join(out)
    finally:
        _SPLIT = False
