"""C02 special families: hand-built corner files of the four formats (all derived from the format descriptions).

    o5m-tail    what is left of the file after the type byte of the last length-prefixed data set (1..12 | 1..40 bytes)
    o5m-table   back-references into the 15000-entry string table before / at / after wrap-around
    o5m-len     strings of 248..254 characters around the 250-character "is stored in the table" limit
    xml-perm    every permutation of the attributes of a node element
    opl-perm    every permutation of the fields of a node line
    tiny        the smallest files each format allows (no objects)
    agree       one data set encoded in all four formats (reader against reader)
"""
import itertools

import model
import enc_o5m
import enc_pbf
import enc_xml
import enc_opl
from model import NotEncodable, N, W, R, T0, iso

G = None   # the gen module (Family, Dim, Case)


def _svar_len(k):
    """a positive value whose o5m signed varint is exactly k bytes long"""
    return 1 if k == 1 else 1 << (7 * (k - 1) - 1)


def register(gen):
    global G
    G = gen
    Family, Dim, Case = gen.Family, gen.Dim, gen.Case

    # --------------------------------------------------------------------------------------------
    class O5mTail(Family):
        name, fmt = "o5m-tail", "o5m"

        def __init__(self):
            self.dims = [Dim("pre", ["node", "none", "ff", "ffbox"]), Dim("last", ["unknown", "node", "ts", "way"]),
                         Dim("rem", [12], kind="range"), Dim("end", ["none", "fe"]), Dim("ftype", ["o5m", "o5c"])]
            self.dim("rem").lo, self.dim("rem").hi = 1, 64

        def build(self, c):
            c = self.full(c)
            rem, fe = int(c["rem"]), 1 if c["end"] == "fe" else 0
            w = enc_o5m.Writer(c["ftype"], "inline").start()
            objs, opts, boxes = [], {}, []
            if c["pre"] != "none":
                w.reset()
            if c["pre"] == "ffbox":
                w.bbox(model.HDR["boxes"][0])
                boxes = [model.HDR["boxes"][0]]
            if c["pre"] == "node":
                o = N(5, 70, 140, version=1, timestamp=T0, changeset=3, uid=4, user="u", tags=[("k", "v")])
                w.object(o)
                objs.append(o)
            L = rem - 1 - fe           # payload length; its length prefix takes one byte (L < 128)
            if L < 0 or L > 127:
                raise NotEncodable("no such tail")
            if c["last"] == "unknown":
                w.raw(0x40, bytes((i * 5 + 1) & 0xff for i in range(L)))
            elif c["last"] == "ts":
                if objs or not 1 <= L <= 5:
                    raise NotEncodable("file timestamp belongs to the header / is 1..5 bytes long")
                ts = _svar_len(L)
                w.timestamp(ts)
                opts = {"o5m_timestamp": iso(ts), "timestamp": iso(ts)}
            elif c["last"] == "node":
                # id + 0x00 (no author info) + lon + lat; spread L - 1 bytes over the three numbers
                n = L - 1
                if n < 3 or n > 19:
                    raise NotEncodable("no node of that size")
                idl = min(9, n - 2)
                lol = min(5, n - idl - 1)
                lal = n - idl - lol
                if lal < 1 or lal > 5:
                    raise NotEncodable("no node of that size")
                o = N(w.d_id + _svar_len(idl), w.d_lon + _svar_len(lol), w.d_lat + _svar_len(lal))
                before = len(w.out)
                w.object(o)
                assert len(w.out) - before == 2 + L, (len(w.out) - before, L)
                objs.append(o)
            else:   # way: id + 0x00 + reflen + refs
                n = L - 2
                if n < 1 or n > 40:
                    raise NotEncodable("no way of that size")
                idl = min(9, n)
                refs = [w.d_wref + 1 + i for i in range(1)]  # first ref delta 1.. then deltas of 1 (one byte each)
                o = W(w.d_id + _svar_len(idl), [w.d_wref + 1 + i for i in range(n - idl)])
                before = len(w.out)
                w.object(o)
                assert len(w.out) - before == 2 + L, (len(w.out) - before, L)
                objs.append(o)
            if fe:
                w.end()
            return Case(w.getvalue(), c["ftype"], model.dump(c["ftype"] == "o5c", opts, boxes, objs), nt=True)

        def rows(self, tier):
            hi = 12 if tier == "quick" else 40
            for pre, last, end, ft in itertools.product(self.dim("pre").values, self.dim("last").values, self.dim("end").values, self.dim("ftype").values):
                if ft == "o5c" and tier == "quick" and (pre, last) != ("none", "node"):
                    continue
                for rem in range(1, hi + 1):
                    yield {"pre": pre, "last": last, "end": end, "ftype": ft, "rem": str(rem)}

    # --------------------------------------------------------------------------------------------
    class O5mTable(Family):
        """n distinct strings (pairs) are stored, then entry number `ref` (1 = newest) is referenced"""
        name, fmt = "o5m-table", "o5m"
        NS = [3, 1, 2, 14999, 15000, 15001, 15002, 29999, 30000, 30001, 45005]

        def __init__(self):
            self.dims = [Dim("n", [3], kind="range"), Dim("ref", ["1", "2", "oldest", "oldest-1", "mid"]), Dim("kind", ["tag", "user", "role"])]
            self.dim("n").lo, self.dim("n").hi = 1, 60000
            self.dim("n").classify = lambda v: "table-wrapped-around" if int(v) >= enc_o5m.TABLE_SIZE else "table-not-yet-full"

        def build(self, c):
            c = self.full(c)
            n = int(c["n"])
            live = min(n, enc_o5m.TABLE_SIZE)
            ref = {"1": 1, "2": 2, "oldest": live, "oldest-1": live - 1, "mid": (live + 1) // 2}[c["ref"]]
            if ref < 1 or ref > live:
                raise NotEncodable("no such table entry")
            w = enc_o5m.Writer("o5m", "inline").start()
            w.reset()
            hit = n - ref            # insertion number of the referenced string
            if c["kind"] == "tag":
                a = N(1, 70, 70, tags=[("k%d" % i, "v%d" % (i * 7)) for i in range(n)])
                w.object(a)
                b = N(2, 140, 140, tags=[a["tags"][hit]])
                w.raw(0x10, enc_o5m.svarint(1) + b"\x00" + enc_o5m.svarint(70) + enc_o5m.svarint(70) + enc_o5m.uvarint(ref))
                objs = [a, b]
            elif c["kind"] == "role":
                a = R(1, [("nwr"[i % 3], 1 + i, "role%d" % i) for i in range(n)])
                w.object(a)
                t, r, role = a["members"][hit]
                last = {"n": 0, "w": 0, "r": 0}
                for mt, mr, _ in a["members"]:
                    last[mt] = mr
                b = R(2, [(t, last[t] + 1, role)])
                refs = enc_o5m.svarint(1) + enc_o5m.uvarint(ref)
                w.raw(0x12, enc_o5m.svarint(1) + b"\x00" + enc_o5m.uvarint(len(refs)) + refs)
                objs = [a, b]
            else:
                objs = [N(1 + i, 70, 70, version=1, timestamp=T0, changeset=1, uid=100 + i, user="user%d" % i) for i in range(n)]
                for o in objs:
                    w.object(o)
                h = objs[hit]
                b = N(n + 1, 70, 70, version=1, timestamp=T0, changeset=1, uid=h["uid"], user=h["user"])
                w.raw(0x10, enc_o5m.svarint(1) + enc_o5m.uvarint(1) + enc_o5m.svarint(0) + enc_o5m.svarint(0) + enc_o5m.uvarint(ref) +
                      enc_o5m.svarint(0) + enc_o5m.svarint(0))
                objs = objs + [b]
            assert w.stored == n, (w.stored, n)
            w.end()
            return Case(w.getvalue(), "o5m", model.dump(False, {}, [], objs), nt=True)

        def rows(self, tier):
            for kind in self.dim("kind").values:
                for n in self.NS:
                    if tier == "quick" and kind != "tag" and n > 15002:
                        continue
                    for ref in self.dim("ref").values:
                        yield {"n": str(n), "ref": ref, "kind": kind}

    # --------------------------------------------------------------------------------------------
    class O5mLen(Family):
        """a string (pair) of `total` characters is written inline; whether it went into the table shows in what the
        following back-references deliver (limit: 250 characters, terminators not counted)"""
        name, fmt = "o5m-len", "o5m"

        def __init__(self):
            self.dims = [Dim("total", [248], kind="range"), Dim("kind", ["tag", "user", "role"]), Dim("split", ["even", "keylong", "vallong"])]
            self.dim("total").lo, self.dim("total").hi = 1, 300

        def build(self, c):
            c = self.full(c)
            total = int(c["total"])
            stored = total <= enc_o5m.MAX_STORED_CHARS
            w = enc_o5m.Writer("o5m", "inline").start()
            w.reset()
            tri = ""
            if c["kind"] == "tag":
                kl = {"even": total // 2, "keylong": total - 1, "vallong": 1}[c["split"]]
                if kl < 0 or kl > total:
                    raise NotEncodable("split")
                S = ("K" * kl, "V" * (total - kl))
                p0, p2 = ("p0", "zero"), ("p2", "two")
                objs = [N(1, 70, 70, tags=[p0]), N(2, 70, 70, tags=[S])]
                for o in objs:
                    w.object(o)
                y = N(3, 70, 70, tags=[p2, p2, S if stored else p0])
                w.raw(0x10, enc_o5m.svarint(1) + b"\x00" + enc_o5m.svarint(0) + enc_o5m.svarint(0) + b"\x00p2\x00two\x00" + enc_o5m.uvarint(1) + enc_o5m.uvarint(2))
                objs.append(y)
            elif c["kind"] == "role":
                if c["split"] != "even" or total < 1:
                    raise NotEncodable("single string")
                role = "r" * (total - 1)     # the stored string is the member type digit followed by the role
                if total == 251:
                    tri = "o5m-single-string-of-251-characters"   # 250 + 2 bytes rule read with one terminator
                objs = [R(1, [("n", 1, "first")]), R(2, [("n", 2, role)])]
                for o in objs:
                    w.object(o)
                y = R(3, [("n", 3, "p2"), ("n", 4, "p2"), ("n", 5, role if stored else "first")])
                refs = enc_o5m.svarint(1) + b"\x000p2\x00" + enc_o5m.svarint(1) + enc_o5m.uvarint(1) + enc_o5m.svarint(1) + enc_o5m.uvarint(2)
                w.raw(0x12, enc_o5m.svarint(1) + b"\x00" + enc_o5m.uvarint(len(refs)) + refs)
                objs.append(y)
            else:
                if c["split"] != "even" or total < 2:
                    raise NotEncodable("user pair")
                uid = 1000                   # two varint bytes
                name = "n" * (total - 2)
                objs = [N(1, 70, 70, version=1, timestamp=T0, changeset=1, uid=5, user="first"),
                        N(2, 70, 70, version=1, timestamp=T0, changeset=1, uid=uid, user=name)]
                for o in objs:
                    w.object(o)
                h = objs[1] if stored else objs[0]
                y = N(3, 70, 70, version=1, timestamp=T0, changeset=1, uid=h["uid"], user=h["user"])
                # the last stored pair is (uid, name) of node 2 if it was stored, otherwise that of node 1
                w.raw(0x10, enc_o5m.svarint(1) + enc_o5m.uvarint(1) + enc_o5m.svarint(0) + enc_o5m.svarint(0) + enc_o5m.uvarint(1) +
                      enc_o5m.svarint(0) + enc_o5m.svarint(0))
                objs.append(y)
            w.end()
            return Case(w.getvalue(), "o5m", model.dump(False, {}, [], objs), nt=True, tri=tri)

        def rows(self, tier):
            lo, hi = (246, 256) if tier == "quick" else (200, 300)
            for kind, split in (("tag", "even"), ("tag", "keylong"), ("tag", "vallong"), ("user", "even"), ("role", "even")):
                for total in range(lo, hi + 1):
                    yield {"total": str(total), "kind": kind, "split": split}

    # --------------------------------------------------------------------------------------------
    def nth_perm(p, n):
        items, out = list(range(n)), []
        for i in range(n, 0, -1):
            f = 1
            for k in range(2, i):
                f *= k
            q, p = divmod(p, f)
            out.append(items.pop(q % len(items)))
        return out

    def rank_of(perm):
        items, p = sorted(perm), 0
        for i, x in enumerate(perm):
            f = 1
            for k in range(2, len(perm) - i):
                f *= k
            p += items.index(x) * f
            items.remove(x)
        return p

    class Perm(Family):
        """every order of the attributes / fields of one node: level few = 7, std = 8, all = 9 of them"""

        def __init__(self, fmt, names):
            self.name, self.fmt = fmt + "-perm", fmt
            self.names = names
            self.dims = [Dim("p", ["0"], kind="perm"), Dim("level", ["few", "std", "all"])]

        @staticmethod
        def level(c):
            return c["level"]

        def build(self, c):
            c = self.full(c)
            lv = c["level"]
            ds = model.dataset("single_nouser" if lv == "few" else "single_full")
            enc = {"xml": enc_xml, "opl": enc_opl}[self.fmt]
            if self.fmt == "xml":
                ch = {"attrs": "perm:" + c["p"], "visible": "always" if lv == "all" else "auto", "optattrs": "sparse" if lv == "few" else "full"}
            else:
                ch = {"order": "perm:" + c["p"], "optional": "full" if lv == "all" else "sparse"}
            multi, opts, boxes = enc.expect(ds, ch)
            return Case(enc.encode(ds, ch), "osm" if self.fmt == "xml" else "osm.opl", model.dump(multi, opts, boxes, ds["objects"]), nt=c["p"] != "0")

        def rows(self, tier):
            # (XML costs about three times as much per case as OPL: its 9! orders are left out)
            for lv in (["few"] if tier == "quick" else ["few", "std", "all"] if self.fmt == "opl" else ["few", "std"]):
                f = 1
                for k in range(2, len(self.names[lv]) + 1):
                    f *= k
                for p in range(f):
                    yield {"p": str(p), "level": lv}

        def reduce(self, c, kind, ask):
            """move the failing permutation towards the canonical order by adjacent swaps as long as it still fails;
            the class is named by the inversions that remain (a<b: a is written before b although b comes first in the
            canonical order); any order that contains these inversions belongs to the class"""
            if "p" not in c:
                return c, "p", "", None
            full = self.full(c)
            names = self.names[self.level(full)]
            n = len(names)
            perm = nth_perm(int(full["p"]), n)
            changed = True
            while changed:
                changed = False
                for i in range(n - 1):
                    if perm[i] > perm[i + 1]:
                        t = perm[:i] + [perm[i + 1], perm[i]] + perm[i + 2:]
                        c2 = dict(c, p=str(rank_of(t)))
                        if ask(c2) == kind:
                            perm, c, changed = t, c2, True
            inv = set((perm[i], perm[j]) for i in range(n) for j in range(i + 1, n) if perm[i] > perm[j])
            label = "order(" + ",".join("%s<%s" % (names[a], names[b]) for a, b in sorted(inv)) + ")"

            def member(v):
                q = nth_perm(int(v), n)
                pos = {x: i for i, x in enumerate(q)}
                return label if all(pos[a] < pos[b] for a, b in inv) else None
            return c, "p", label, member

    # --------------------------------------------------------------------------------------------
    O5M_HEAD = b"\xff\xe0\x04o5m2"
    O5C_HEAD = b"\xff\xe0\x04o5c2"

    def _pbf_tiny(**ch):
        ds = {"objects": [], "history": False, "header": {}}
        c = dict(header="min")
        c.update(ch)
        m, o, b = enc_pbf.expect(ds, c)
        return enc_pbf.encode(ds, c), "osm.pbf", (m, o, b)

    def _xml(text, multi=False, opts=None, suffix="osm"):
        return text.encode("utf-8"), suffix, (multi, dict({"version": "0.6"}, **(opts or {})), [])

    TINY = {
        # OPL: an empty file, blank lines and comment lines denote no objects
        "opl-empty": lambda: (b"", "osm.opl", (False, {}, [])),
        "opl-lf": lambda: (b"\n", "osm.opl", (False, {}, [])),
        "opl-crlf": lambda: (b"\r\n", "osm.opl", (False, {}, [])),
        "opl-cr": lambda: (b"\r", "osm.opl", (False, {}, [])),
        "opl-lflf": lambda: (b"\n\n\n", "osm.opl", (False, {}, [])),
        "opl-comment": lambda: (b"#", "osm.opl", (False, {}, [])),
        "opl-comment-lf": lambda: (b"# comment\n", "osm.opl", (False, {}, [])),
        "opl-comment-nolf": lambda: (b"\n#x", "osm.opl", (False, {}, [])),
        # o5m: header; optional reset; optional end marker
        "o5m-header": lambda: (O5M_HEAD, "o5m", (False, {}, [])),
        "o5m-header-fe": lambda: (O5M_HEAD + b"\xfe", "o5m", (False, {}, [])),
        "o5m-header-ff": lambda: (O5M_HEAD + b"\xff", "o5m", (False, {}, [])),
        "o5m-header-ff-fe": lambda: (O5M_HEAD + b"\xff\xfe", "o5m", (False, {}, [])),
        "o5m-header-sync0": lambda: (O5M_HEAD + b"\xee\x00", "o5m", (False, {}, [])),
        "o5m-header-unknown": lambda: (O5M_HEAD + b"\x40\x03abc\xfe", "o5m", (False, {}, [])),
        "o5c-header": lambda: (O5C_HEAD, "o5c", (True, {}, [])),
        "o5c-header-fe": lambda: (O5C_HEAD + b"\xfe", "o5c", (True, {}, [])),
        "o5c-header-ff-fe": lambda: (O5C_HEAD + b"\xff\xfe", "o5c", (True, {}, [])),
        "o5m-header-ts": lambda: (O5M_HEAD + b"\xdc\x01\x02\xfe", "o5m", (False, {"o5m_timestamp": iso(1), "timestamp": iso(1)}, [])),
        # XML: a root element without children
        "xml-selfclosed": lambda: _xml('<osm version="0.6"/>'),
        "xml-pair": lambda: _xml("<osm version='0.6'></osm>"),
        "xml-decl": lambda: _xml("<?xml version='1.0' encoding='UTF-8'?>\n<osm version=\"0.6\" generator=\"g\">\n</osm>\n", opts={"generator": "g"}),
        "xml-nl": lambda: _xml('<osm version="0.6"/>\n'),
        "xml-change": lambda: _xml('<osmChange version="0.6"/>', multi=True, suffix="osc"),
        "xml-change-sections": lambda: _xml('<osmChange version="0.6"><create/><modify></modify><delete/></osmChange>', multi=True, suffix="osc"),
        "xml-bom": lambda: (b"\xef\xbb\xbf" + b'<osm version="0.6"/>', "osm", (False, {"version": "0.6"}, [])),
        # PBF: header block only (three blob kinds), header plus an object-free block
        "pbf-header-raw": lambda: _pbf_tiny(),
        "pbf-header-zlib": lambda: _pbf_tiny(blob="zlib"),
        "pbf-header-lz4": lambda: _pbf_tiny(blob="lz4"),
        "pbf-header-rawsize": lambda: _pbf_tiny(blob="raw+size"),
        "pbf-emptyblock": lambda: _pbf_tiny(empty="blocks"),
        "pbf-emptyblock-zlib": lambda: _pbf_tiny(empty="blocks", blob="zlib"),
        "pbf-header-rich": lambda: _pbf_tiny(header="rich"),
    }

    class Tiny(Family):
        name, fmt = "tiny", "*"

        def __init__(self):
            self.dims = [Dim("file", ["opl-empty"] + [k for k in TINY if k != "opl-empty"])]

        def build(self, c):
            c = self.full(c)
            data, suffix, (multi, opts, boxes) = TINY[c["file"]]()
            return Case(data, suffix, model.dump(multi, opts, boxes, []), nt=False)

        def rows(self, tier):
            for k in self.dim("file").values:
                yield {"file": k}

    # --------------------------------------------------------------------------------------------
    PROFILES = {
        "default": {"pbf": {}, "o5m": {}, "xml": {}, "opl": {}},
        "alt": {"pbf": dict(nodes="plain", blob="zlib", granularity=1, offset="plus", date_granularity=1, info="full", order="reversed", unknown="mixed",
                            grouping="group_per_object", stringtable="padded", header="min"),
                "o5m": dict(strings="inline", reset="every", extras="unknown", header="none", end="none"),
                "xml": dict(attrs="reversed", quote="single", escape="hex", space="compact", empty="pair", children="tags_first", bounds="none"),
                "opl": dict(order="reversed", sep="tab", eol="crlf", final="none", escape="wide", coords="pad7")},
        "alt2": {"pbf": dict(nodes="mixed", blob="lz4", granularity=7, offset="large", date_granularity=2000, info="sparse", defaults="explicit",
                             grouping="block_per_object", stringtable="zero_nonblank", empty="blocks", dense_kv="always"),
                 "o5m": dict(strings="mixed_oldest", reset="start", extras="sync_jump", header="ts_first"),
                 "xml": dict(decl="bom", attrs="sorted", quote="mixed", escape="allhex", space="wide", optattrs="sparse", visible="always", extras="elements", coords="pad11"),
                 "opl": dict(order="tags_first", optional="sparse", sep="multi", eol="cr", filler="comments", escape="pad")},
    }

    class Agree(Family):
        """the same data set in all four formats: the four readers must deliver the same objects"""
        name, fmt = "agree", "*"

        def __init__(self):
            self.dims = [Dim("ds", model.COMMON), Dim("profile", list(PROFILES))]

        def group(self, c):
            c = self.full(c)
            ds = model.dataset(c["ds"])
            out = []
            for fmt in ("pbf", "o5m", "xml", "opl"):
                fam = G.FAMILIES[fmt]
                ch = dict(PROFILES[c["profile"]][fmt], ds=c["ds"])
                try:
                    case = fam.build(ch)
                except NotEncodable:
                    continue
                case.group = self.spec(c) + "#" + fmt
                out.append((c, case))
            texts = set(model.objects_part(case.expected) for _, case in out)
            assert len(texts) == 1, "the generator's own expectations differ between formats for " + self.spec(c)
            return out

        def build(self, c):
            return self.group(c)[0][1]

        def rows(self, tier):
            for ds in model.COMMON:
                for p in PROFILES:
                    yield {"ds": ds, "profile": p}

    # --------------------------------------------------------------------------------------------
    class PbfSize(Family):
        """a blob whose uncompressed content is `below` bytes under the 32 MiB limit ("must be less than 32 MiB"),
        padded with one unknown length-delimited field (number 15) in the PrimitiveBlock / HeaderBlock"""
        name, fmt = "pbf-size", "pbf"
        LIMIT = 32 * 1024 * 1024

        def __init__(self):
            self.dims = [Dim("below", [65536], kind="range"), Dim("blob", ["raw", "raw+size", "zlib", "lz4"]), Dim("where", ["data", "header"])]
            self.dim("below").lo, self.dim("below").hi = 1, self.LIMIT - 4096
            self.dim("below").classify = lambda v: ("within-16-bytes-of-32MiB" if int(v) <= 16 else
                                                    "between-16MiB-and-32MiB" if int(v) < 16 * 1024 * 1024 else "at-most-16MiB")

        def build(self, c):
            c = self.full(c)
            target = self.LIMIT - int(c["below"])
            ds = model.dataset("single_full")
            cc = enc_pbf.resolve({"blob": c["blob"]})
            hb = enc_pbf.header_block(ds, cc, True)
            pb = enc_pbf._primitive_block(ds["objects"], cc, False)
            base = pb if c["where"] == "data" else hb
            room = target - len(base)
            pad = None
            for lenlen in (1, 2, 3, 4, 5):
                L = room - 1 - lenlen
                if L >= 0 and len(enc_pbf.varint(L)) == lenlen:
                    pad = enc_pbf.f_bytes(15, bytes(L))
            if pad is None:
                raise NotEncodable("no padding of that size")
            if c["where"] == "data":
                pb = pad + pb
                assert len(pb) == target
            else:
                hb = hb + pad
                assert len(hb) == target
            data = enc_pbf.frame("OSMHeader", hb, cc) + enc_pbf.frame("OSMData", pb, cc)
            multi, opts, boxes = enc_pbf.expect(ds, {"blob": c["blob"]})
            tri = ""
            if c["blob"] in ("raw", "raw+size") and len(enc_pbf.blob(pb if c["where"] == "data" else hb, cc)) >= self.LIMIT:
                # the content is below the limit, the Blob message around it is not: the description ("the uncompressed
                # length of a Blob must be less than 32 MiB") can be read either way
                tri = "pbf-raw-blob-message>=32MiB"
            return Case(data, "osm.pbf", model.dump(multi, opts, boxes, ds["objects"]), nt=True, tri=tri)

        def rows(self, tier):
            belows = [1, 5, 6, 11, 4096, 16 * 1024 * 1024 - 1] if tier == "quick" else list(range(1, 14)) + [100, 4096, 16 * 1024 * 1024 - 1, 16 * 1024 * 1024]
            for where in (["data"] if tier == "quick" else ["data", "header"]):
                for blob in self.dim("blob").values:
                    for b in belows:
                        yield {"below": str(b), "blob": blob, "where": where}

    gen.FAMILIES.update({
        "pbf-size": PbfSize(),
        "o5m-tail": O5mTail(), "o5m-table": O5mTable(), "o5m-len": O5mLen(),
        "xml-perm": Perm("xml", {"few": ["id", "version", "timestamp", "uid", "changeset", "lat", "lon"],
                                 "std": ["id", "version", "timestamp", "uid", "user", "changeset", "lat", "lon"],
                                 "all": ["id", "version", "timestamp", "uid", "user", "changeset", "visible", "lat", "lon"]}),
        "opl-perm": Perm("opl", {"few": ["v", "c", "t", "i", "T", "x", "y"], "std": ["v", "c", "t", "i", "u", "T", "x", "y"],
                                 "all": ["v", "d", "c", "t", "i", "u", "T", "x", "y"]}),
        "tiny": Tiny(), "agree": Agree(),
    })
