"""OPL encoder for C02, written from the format manual (osmcode.org/opl-file-format) - NOT from libosmium.

One object per line:  <type><id> then fields separated by blanks, each a letter followed by its value
    n/w/r:  v<version> d<V|D> c<changeset> t<timestamp ISO|empty> i<uid> u<user> T<k=v,k=v>  and
            n: x<lon> y<lat> (empty for no location)   w: N<n1,n2...> (n<ID>[x<lon>y<lat>])   r: M<n1@role,...>
    c:      k<num_changes> s<created_at> e<closed_at> d<num_comments> i<uid> u<user> x y X Y (bounding box) T<tags>
Strings: every character that is a blank, control character, or one of , = @ % must be written %<hex code point>%;
any other character may be.  Lines starting with # and empty lines are ignored.

    encode(dataset, choices) -> bytes ;  expect(dataset, choices) -> (multi, options, boxes) ;  DIMS

Choices
    order     canonical | reversed | rot3 | tags_first | perm:<p>    field order after the id
    optional  full | sparse            sparse: fields whose value is the reader-side default are left out
    sep       space | tab | multi | trailing     field separator: one space / one tab / several mixed blanks / single
                                       space plus blanks at the end of the line
    eol       lf | crlf | cr
    final     newline | none           last line terminated or not
    filler    none | blank | comments  empty lines / comment lines between the object lines
    escape    min | wide | upper | pad min: only what must be escaped; wide: everything but ASCII letters and digits;
                                       upper: like wide with upper case hex; pad: like min, at least 4 hex digits
    coords    min | pad7
"""
from model import NotEncodable, iso
from enc_xml import coord

DIMS = [
    ("order", ["canonical", "reversed", "rot3", "tags_first"]),
    ("optional", ["full", "sparse"]),
    ("sep", ["space", "tab", "multi", "trailing"]),
    ("eol", ["lf", "crlf", "cr"]),
    ("final", ["newline", "none"]),
    ("filler", ["none", "blank", "comments"]),
    ("escape", ["min", "wide", "upper", "pad"]),
    ("coords", ["min", "pad7"]),
]
DEFAULTS = {k: v[0] for k, v in DIMS}


def resolve(choices):
    c = dict(DEFAULTS)
    if choices:
        for k, v in choices.items():
            if k not in c:
                raise KeyError("unknown opl choice " + k)
            c[k] = v
    return c


def estr(s, mode):
    out = []
    for ch in s:
        o = ord(ch)
        must = o <= 0x20 or o == 0x7f or ch in ",=@%" or 0x80 <= o < 0xa0
        if mode in ("wide", "upper"):
            must = must or not (ch.isascii() and ch.isalnum())
        if must:
            if mode == "upper":
                out.append("%%%X%%" % o)
            elif mode == "pad":
                out.append("%%%04x%%" % o)
            else:
                out.append("%%%x%%" % o)
        else:
            out.append(ch)
    return "".join(out)


def _ts(t):
    return iso(t) if t else ""


def _fields(o, c):
    """list of (letter, value text, is_default)"""
    e = c["escape"]
    tags = ",".join(estr(k, e) + "=" + estr(v, e) for k, v in o["tags"])
    if o["type"] == "c":
        f = [("k", str(o.get("num_changes", 0)), not o.get("num_changes")), ("s", _ts(o.get("created", 0)), not o.get("created")),
             ("e", _ts(o.get("closed", 0)), not o.get("closed")), ("d", str(o.get("num_comments", 0)), not o.get("num_comments")),
             ("i", str(o["uid"]), not o["uid"]), ("u", estr(o["user"], e), not o["user"])]
        b = o.get("box")
        for letter, idx in (("x", 0), ("y", 1), ("X", 2), ("Y", 3)):
            f.append((letter, coord(b[idx], c["coords"]) if b else "", not b))
        f.append(("T", tags, not tags))
        if o.get("comments"):
            raise NotEncodable("OPL does not carry changeset discussions")
        return f
    vis = o.get("visible", True)
    f = [("v", str(o["version"]), not o["version"]), ("d", "V" if vis else "D", vis), ("c", str(o["changeset"]), not o["changeset"]),
         ("t", _ts(o["timestamp"]), not o["timestamp"]), ("i", str(o["uid"]), not o["uid"]), ("u", estr(o["user"], e), not o["user"]),
         ("T", tags, not tags)]
    if o["type"] == "n":
        has = vis and o["lon"] is not None
        f += [("x", coord(o["lon"], c["coords"]) if has else "", not has), ("y", coord(o["lat"], c["coords"]) if has else "", not has)]
    elif o["type"] == "w":
        locs = o.get("reflocs") or [None] * len(o["refs"])
        f.append(("N", ",".join("n%d" % r + ("" if l is None else "x%sy%s" % (coord(l[0], c["coords"]), coord(l[1], c["coords"])))
                                for r, l in zip(o["refs"], locs)), not o["refs"]))
    else:
        f.append(("M", ",".join("%s%d@%s" % (t, r, estr(role, e)) for t, r, role in o["members"]), not o["members"]))
    return f


def _order(f, c):
    m = c["order"]
    if m == "reversed":
        return f[::-1]
    if m == "rot3":
        return f[3:] + f[:3]
    if m == "tags_first":
        return [x for x in f if x[0] == "T"] + [x for x in f if x[0] != "T"]
    if m.startswith("perm:"):
        p = int(m[5:])
        items, out = list(f), []
        for i in range(len(items), 0, -1):
            fac = 1
            for k in range(2, i):
                fac *= k
            q, p = divmod(p, fac)
            out.append(items.pop(q % len(items)))
        return out
    return f


def expect(dataset, choices=None):
    return False, {}, []


def encode(dataset, choices=None):
    c = resolve(choices)
    eol = {"lf": "\n", "crlf": "\r\n", "cr": "\r"}[c["eol"]]
    lines = []
    if c["filler"] == "comments":
        lines.append("# OPL file written for C02")
    for n, o in enumerate(dataset["objects"]):
        f = _fields(o, c)
        if c["optional"] == "sparse":
            f = [x for x in f if not x[2]]
        f = _order(f, c)
        seps = {"space": [" "], "tab": ["\t"], "multi": ["  ", "\t ", " \t\t"], "trailing": [" "]}[c["sep"]]
        line = "%s%d" % (o["type"], o["id"])
        for i, (letter, val, _) in enumerate(f):
            line += seps[i % len(seps)] + letter + val
        if c["sep"] == "trailing":
            line += " \t "[:1 + n % 3]
        lines.append(line)
        if c["filler"] == "blank" and n % 2 == 0:
            lines.append("")
        if c["filler"] == "comments" and n % 2 == 1:
            lines.append("#n1 v1 this is a comment, not a node")
    text = eol.join(lines)
    if lines and c["final"] == "newline":
        text += eol
    if c["filler"] == "blank":
        text = eol + text
    return text.encode("utf-8")
