"""C12 - all id-to-value index implementations behave as one mathematical map (DESIGN.md section 5, C12)."""
LEVEL = "model_checking"
RULE = ("explicit-state search over insertion histories: a state is a mapping {id -> location}, a transition is set(id, value) with a "
        "new id; every history (DFS over all sequences of distinct ids of bounded length over boundary alphabets: 0,1,2, 2^16+-1, 2^20+-1, "
        "1310720+-1 (dump window), 2^24+-1, 2^32-1, 2^32, 2^35, 2^63, 2^64-1) is replayed on a fresh real index of every configuration "
        "(8 factory types, file types with tmpfile and with file name, FlexMem forced dense, FlexMem with switch_to_dense() after every step) "
        "and compared with a std::map on 90+ probe ids (every alphabet id +-1) through get() and get_noexcept() - after the history "
        "(mode E) and after every step (mode S). The value is a function of (id, scheme) so all permutations of an id set must converge: "
        "states = distinct canonical keys = hash of the mapping as observed through the real object (counted across shards); "
        "transitions = set()/node() calls executed on real indexes; traces_validated_against_impl = (history x configuration x mode) "
        "replays; evaluations = oracle evaluations (replays + reload checks). value scheme: all 3 for histories of length <= 2, rank mod 3 "
        "otherwise. Other sub-spaces: dump (list/array bytes vs model bytes, reload via fd and factory, extend), flexperm (all permutations "
        "of 7..9-id sets with FlexMem's threshold hooked to 7), nlfw (all node streams over {+-1,+-2,+-3,big} x way position x index pair x "
        "strict/ignore_errors), bulk (N consecutive ids minus holes in 4 orders; thorough crosses the real 0xffffff threshold). "
        "distinct_nontrivial = distinct (sub-space, history, scheme) with >= 1 insert, not multiplied by configurations.")
DEADLINE = {"quick": 240, "thorough": 1500}

FLAGS = ["-fno-access-control"]          # read-only: FlexMem::min_dense_entries
H7 = ["-DOSMIUM_VERIF_FLEXMEM_MIN_DENSE_ENTRIES=7"]


def build(ctx):
    exes = ctx.build_many([
        dict(name="h12", sources=["h12.cpp"], flags=FLAGS, opt="-O2"),
        dict(name="h12f", sources=["h12.cpp"], flags=FLAGS + H7, opt="-O2"),
        dict(name="h12a", sources=["h12.cpp"], flags=FLAGS + H7, opt="-O1", asan=True),
    ])
    return {"h12": exes[0], "h12f": exes[1], "h12a": exes[2]}


def run(ctx):
    exes = build(ctx)
    if getattr(ctx, "build_only", False):
        return
    h, hf, ha = exes["h12"], exes["h12f"], exes["h12a"]
    ctx.run_harness(ha, ["--part", "asan"], shards=16)
    ctx.run_harness(hf, ["--part", "flexperm"], shards=16)
    ctx.run_harness(h, ["--part", "hist"], shards=16)
    ctx.run_harness(h, ["--part", "dump"], shards=16)
    ctx.run_harness(h, ["--part", "nlfw"], shards=16)
    ctx.run_harness(hf, ["--part", "bulk", "--flex-only"], shards=4)
    ctx.run_harness(h, ["--part", "bulk"], shards=16)
    ctx.assume("ids are distinct within a history and values are defined locations (the empty value cannot be stored); sort() is called "
               "before lookups; dense types (incl. FlexMem forced/switched to dense) are only given ids <= 2^24+2; a type may refuse "
               "dump_as_list/dump_as_array with the documented runtime_error; size()/used_memory() are not part of the mapping; "
               "the state of a way after NodeLocationsForWays threw not_found is left open; clear() ends the life of an index")
    ctx.assume("the file-based types never close their descriptor; the harness closes it after each case (resource use is not part of C12)")
