// C12 - all id->value index implementations behave as one mathematical map.
//
// Explicit-state search over insertion histories. A state is a mapping {id -> location}; a transition is
// set(id, value) with an id not yet in the mapping. The real indexes cannot be snapshotted, so every state
// is reached by replaying its history on a *fresh real index* created through the factory; the canonical
// state key is the mapping as observed through the real object (get/get_noexcept over a fixed probe list),
// so all permutations of one id set must converge to one key. The reference model is a std::map, compared
// after every history (and after every step in stepwise mode).
//
// Sub-spaces (--part):
//   hist      all sequences of distinct ids (bounded length) over boundary alphabets x all 8 registered map
//             types (file types both with tmpfile and with a file name) + FlexMem forced dense + FlexMem with an
//             explicit switch_to_dense() after every possible step
//   dump      dump_as_list / dump_as_array of every supporting type: bytes compared with the model's bytes
//             (so sparse and dense array dumps are byte-identical), reloaded through the fd constructors and
//             through the factory with a file name, extended by one more id after reloading
//   flexperm  (build with OSMIUM_VERIF_FLEXMEM_MIN_DENSE_ENTRIES=7) all permutations of 8..9-id sets, so the
//             automatic sparse->dense switch happens mid-history at every position the heuristic allows
//   nlfw      NodeLocationsForWays: all node streams over {+-1,+-2,+-3,big} in every order, a way after every
//             prefix, every (positive index, negative index) pair, with and without ignore_errors()
//   asan      (AddressSanitizer build) short histories and FlexMem switch permutations on the heap-backed types, fork-isolated
//   bulk      N consecutive ids (minus a few holes) in ascending / descending / pair-swapped / bit-reversed
//             order into every type: quick N = 2^21+2 (1 Mi-element growth steps, 10 MiB dump window),
//             thorough N = 2^24+2 (the real FlexMem threshold 0xffffff); four members of the order space
#include <benum/benum.hpp>

#include <osmium/index/map/all.hpp>
#include <osmium/index/node_locations_map.hpp>
#include <osmium/handler/node_locations_for_ways.hpp>
#include <osmium/builder/osm_object_builder.hpp>
#include <osmium/memory/buffer.hpp>
#include <osmium/osm/node.hpp>
#include <osmium/osm/way.hpp>

#include <sys/stat.h>
#include <malloc.h>

#include <algorithm>
#include <memory>
#include <typeinfo>
#include <unordered_set>

using benum::Args;
using Id = osmium::unsigned_object_id_type;
using Loc = osmium::Location;
using MapT = osmium::index::map::Map<Id, Loc>;
using Flex = osmium::index::map::FlexMem<Id, Loc>;
using Model = std::map<Id, Loc>;

static benum::Counters C;
static benum::Violations V;
static std::unordered_set<uint64_t> g_states;
static std::string g_tmp;          // prefix of scratch files under /dev/shm
static Args g_args;
static unsigned g_samples = 0;
static std::string g_only;         // diagnostics: --only <impl config> restricts part hist to one configuration

static const Id K16 = 1ull << 16, K20 = 1ull << 20, K24 = 1ull << 24, WIN = 1310720;   // WIN: 10 MiB / sizeof(Location)
static const Id DENSE_MAX_ID = K24 + 2;   // dense types allocate id*8 bytes: never feed them anything larger

// ------------------------------------------------------------------------------------------------
// values: a function of (id, scheme) so that all permutations of an id set reach the same mapping and a
// value identifies the id it belongs to. Scheme 0 maps id 0 to Location(0,0) (= all-zero bytes, what an
// unfilled slot would read as); schemes 1/2 sit at the negative / positive end of the valid range.
static Loc value_of(Id id, int scheme) {
    static const int32_t bx[3] = {0, -1800000000, 1799990000};
    static const int32_t by[3] = {0, -900000000, 899990000};
    return Loc{static_cast<int32_t>(bx[scheme] + static_cast<int32_t>(id % 8191)),
               static_cast<int32_t>(by[scheme] + static_cast<int32_t>((id / 8191) % 8209))};
}
static const Loc EMPTY = osmium::index::empty_value<Loc>();
static bool same(const Loc& a, const Loc& b) { return a.x() == b.x() && a.y() == b.y(); }
static std::string show(const Loc& l) {
    if (same(l, EMPTY)) return "empty";
    return "(" + std::to_string(l.x()) + "," + std::to_string(l.y()) + ")";
}

// class label of an id for class keys (no raw inputs in keys)
static std::string idclass(Id p) {
    for (int k = 16; k <= 63; ++k) {
        Id c = 1ull << k;
        if (p + 2 >= c && p <= c + 2) return "near-2^" + std::to_string(k);
    }
    if (p >= ~0ull - 2) return "near-2^64";
    for (Id m = 1; m <= 16; ++m) if (p + 2 >= m * WIN && p <= m * WIN + 2) return "near-" + std::to_string(m) + "x1310720";
    if (p < K16) return "below-2^16";
    if (p < K20) return "2^16..2^20";
    if (p < K24) return "2^20..2^24";
    return "above-2^24";
}

static uint64_t mix(uint64_t h, uint64_t v) {
    h ^= v + 0x9E3779B97F4A7C15ull + (h << 6) + (h >> 2);
    h *= 0xff51afd7ed558ccdull;
    return h ^ (h >> 33);
}

static std::string ids_text(const std::vector<Id>& ids) {
    std::string s;
    for (size_t i = 0; i < ids.size(); ++i) { if (i) s += ","; s += std::to_string(ids[i]); }
    return s;
}
static std::vector<std::string> split(const std::string& s, char sep) {
    std::vector<std::string> r; std::string cur;
    for (char c : s) { if (c == sep) { r.push_back(cur); cur.clear(); } else cur += c; }
    r.push_back(cur);
    return r;
}
static std::vector<Id> parse_ids(const std::string& s) {
    std::vector<Id> r;
    if (s.empty()) return r;
    for (const auto& t : split(s, ',')) r.push_back(strtoull(t.c_str(), nullptr, 10));
    return r;
}

// The file-based index types never close the descriptor they are given / create (MemoryMapping does not
// own it). The harness creates > 10^5 indexes per process, so it closes whatever a case left open.
struct FdScope {
    int base;
    FdScope() { base = ::open("/dev/null", O_RDONLY); if (base >= 0) ::close(base); }
    ~FdScope() { if (base >= 0) for (int fd = base; fd < base + 16; ++fd) ::close(fd); }
};

// ------------------------------------------------------------------------------------------------
// implementations under test
struct Impl {
    std::string name;     // label used in keys/specs
    std::string cfg;      // factory type name
    bool dense_like;      // memory proportional to the largest id
    int cost;             // 0: microseconds per instance, 1: fills (max id + 1) * 8 bytes, 2: maps+fills >= 8 MiB per instance (5..20 ms)
    bool with_path;       // create through the factory with ",<file name>"
    int flex;             // 0 factory, 1 FlexMem(true) forced dense, 2 FlexMem + explicit switch_to_dense() after k inserts
};
static const std::vector<Impl>& impls() {
    static const std::vector<Impl> v = {
        {"sparse_mem_array", "sparse_mem_array", false, 0, false, 0},
        {"sparse_mem_map", "sparse_mem_map", false, 0, false, 0},
        {"flex_mem", "flex_mem", false, 0, false, 0},
        {"flex_mem:forced-dense", "", true, 0, false, 1},
        {"flex_mem:switch", "", true, 0, false, 2},
        {"dense_mem_array", "dense_mem_array", true, 1, false, 0},
        {"dense_mmap_array", "dense_mmap_array", true, 2, false, 0},
        {"dense_file_array", "dense_file_array", true, 2, false, 0},
        {"dense_file_array@path", "dense_file_array", true, 2, true, 0},
        {"sparse_mmap_array", "sparse_mmap_array", false, 2, false, 0},
        {"sparse_file_array", "sparse_file_array", false, 2, false, 0},
        {"sparse_file_array@path", "sparse_file_array", false, 2, true, 0},
    };
    return v;
}
static const Impl* impl_by_name(const std::string& n) {
    for (const auto& im : impls()) if (im.name == n) return &im;
    return nullptr;
}
static std::unique_ptr<MapT> make(const Impl& im, const std::string& path) {
    if (im.flex == 1) return std::unique_ptr<MapT>(new Flex(true));
    if (im.flex == 2) return std::unique_ptr<MapT>(new Flex());
    std::string cfg = im.cfg;
    if (im.with_path) { ::unlink(path.c_str()); cfg += "," + path; }
    return osmium::index::MapFactory<Id, Loc>::instance().create_map(cfg);
}

// ------------------------------------------------------------------------------------------------
// the oracle: the real map must answer every probe exactly like the std::map model.
//   present id : get() returns the value, get_noexcept() returns the value
//   absent id  : get() throws osmium::not_found (exactly that type), get_noexcept() returns the empty value
// get_absent: how many absent ids also go through the (slow, throwing) get(): 0 none (intermediate steps),
// 1 those next to an inserted id plus the first and last probe, 2 all.
struct Where { std::string part, impl, extra, spec, hist; };

static bool check_map(const MapT& m, const Model& model, const std::vector<Id>& probes, int get_absent,
                      const Where& w, uint64_t* state) {
    Id maxid = model.empty() ? 0 : model.rbegin()->first;
    uint64_t h = 0x12345;
    // strings are only built when something is wrong
    auto fail = [&](const char* what, Id p, bool present, const std::string& detail) {
        std::string rel = model.empty() ? "empty-map" : present ? (p == maxid ? "is-max" : "not-max")
                          : p == maxid + 1 ? "max+1" : p > maxid ? "beyond-max" : "below-max";
        V.report(std::string("lookup/") + what + "/" + w.impl + w.extra + "/" + idclass(p) + "/" + rel,
                 "history [" + w.hist + "] on " + w.impl + w.extra + ", probe id " + std::to_string(p) + ": " + detail, w.spec);
        return false;
    };
    for (Id p : probes) {
        auto it = model.find(p);
        bool present = it != model.end();
        Loc g = m.get_noexcept(p);
        h = mix(mix(h, p), (static_cast<uint64_t>(static_cast<uint32_t>(g.x())) << 32) | static_cast<uint32_t>(g.y()));
        if (present) {
            if (same(g, EMPTY)) return fail("inserted-id-not-found", p, true, "get_noexcept() returned the empty value, inserted " + show(it->second));
            if (!same(g, it->second)) return fail("inserted-id-wrong-value", p, true, "get_noexcept() returned " + show(g) + ", inserted " + show(it->second));
        } else if (!same(g, EMPTY)) {
            return fail("absent-id-found", p, false, "get_noexcept() returned " + show(g) + " for an id that was never inserted");
        }
        if (!present) {
            if (get_absent == 0) continue;
            if (get_absent == 1 && p != probes.front() && p != probes.back() && !model.count(p + 1) && !(p && model.count(p - 1))) continue;
        }
        bool threw = false, wrong = false; Loc v; std::string what;
        try { v = m.get(p); }
        catch (const osmium::not_found& e) { threw = true; wrong = typeid(e) != typeid(osmium::not_found); if (wrong) what = e.what(); }
        catch (const std::exception& e) { threw = true; wrong = true; what = e.what(); }
        if (wrong) return fail("get-wrong-exception", p, present, "get() threw " + what);
        if (present && threw) return fail("inserted-id-not-found", p, true, "get() threw not_found, inserted " + show(it->second));
        if (present && !same(v, it->second)) return fail("inserted-id-wrong-value", p, true, "get() returned " + show(v) + ", inserted " + show(it->second));
        if (!present && !threw) return fail("absent-id-found", p, false, "get() returned " + show(v) + " instead of throwing not_found");
    }
    C["probes_compared"] += probes.size();
    if (state) *state = h;
    return true;
}

static void report_exception(const Where& w, const char* op, const std::exception& e) {
    V.report("exception/" + w.impl + w.extra + "/" + op + "/" + typeid(e).name(),
             "history [" + w.hist + "]: " + op + " threw " + e.what(), w.spec);
}

// ------------------------------------------------------------------------------------------------
// alphabets
static const std::vector<Id> A_CHEAP = {0, 1, 2, K16 - 1, K16, K16 + 1, K20 - 1, K20, K20 + 1, WIN - 1, WIN, WIN + 1};
static const std::vector<Id> A_EXP = {K24 - 1, K24, K24 + 1};
static const std::vector<Id> A_HUGE = {(1ull << 32) - 1, 1ull << 32, 1ull << 35, 1ull << 63, ~0ull};
static const std::vector<Id> A_DUMP = {0, 1, K16, WIN - 1, WIN, WIN + 1, 2 * WIN - 1, 2 * WIN, 2 * WIN + 1};

static std::vector<Id> make_probes(std::initializer_list<const std::vector<Id>*> alphas, const std::vector<Id>& extra = {}) {
    std::vector<Id> p;
    auto add = [&](Id a) { p.push_back(a); if (a != 0) p.push_back(a - 1); if (a != ~0ull) p.push_back(a + 1); };
    for (auto* al : alphas) for (Id a : *al) add(a);
    for (Id a : extra) add(a);
    std::sort(p.begin(), p.end());
    p.erase(std::unique(p.begin(), p.end()), p.end());
    return p;
}
static const std::vector<Id>& hist_probes() {
    static const std::vector<Id> p = make_probes({&A_CHEAP, &A_EXP, &A_HUGE, &A_DUMP}, {7, 3000000, 40000});
    return p;
}

// ------------------------------------------------------------------------------------------------
// part hist: one trace = one history replayed on one fresh real index
//   mode 'E': set*, sort, check      mode 'S': after every set: sort, check (then keep inserting)
struct Trace { const Impl* im; std::vector<Id> ids; int scheme; char mode; int switch_at; };

static std::string trace_spec(const Trace& t) {
    return "hist;" + t.im->name + ";" + std::string(1, t.mode) + ";" + std::to_string(t.scheme) + ";" +
           std::to_string(t.switch_at) + ";" + ids_text(t.ids);
}

static bool run_trace(const Trace& t) {
    ++C["evaluations"]; ++C["traces_validated_against_impl"];
    Where w{"hist", t.im->name, t.im->flex == 2 ? "@" + std::to_string(t.switch_at) + "of" + std::to_string(t.ids.size()) : "", trace_spec(t), ids_text(t.ids)};
    FdScope fds;
    std::string path = g_tmp + "-h";
    bool ok = true;
    const char* op = "create";
    try {
        std::unique_ptr<MapT> m = make(*t.im, path);
        Flex* fx = t.im->flex == 2 ? static_cast<Flex*>(m.get()) : nullptr;
        Model model;
        uint64_t st = 0;
        for (size_t i = 0; ok && i < t.ids.size(); ++i) {
            if (fx && t.switch_at == static_cast<int>(i)) { op = "switch_to_dense"; fx->switch_to_dense(); }
            op = "set";
            Loc v = value_of(t.ids[i], t.scheme);
            m->set(t.ids[i], v);
            model[t.ids[i]] = v;
            ++C["transitions"];
            if (t.mode == 'S' && i + 1 < t.ids.size()) {
                op = "sort"; m->sort();
                op = "lookup"; ok = check_map(*m, model, hist_probes(), 0, w, &st);
                if (ok) g_states.insert(st);
            }
        }
        if (ok) {
            if (fx && t.switch_at == static_cast<int>(t.ids.size())) { op = "switch_to_dense"; fx->switch_to_dense(); }
            op = "sort"; m->sort();
            op = "lookup"; ok = check_map(*m, model, hist_probes(), t.im->cost == 2 ? 2 : 1, w, &st);
            if (ok) g_states.insert(st);
        }
        if (ok && g_samples < 2 && t.ids.size() >= 3 && t.im->cost == 2 && t.ids[0] >= K16) {
            ++g_samples;
            benum::sample("hist ids=[" + w.hist + "] scheme=" + std::to_string(t.scheme) + " mode=" + t.mode + " impl=" + w.impl +
                          ": " + std::to_string(hist_probes().size()) + " probes agree with the model, e.g. get(" + std::to_string(t.ids[0]) + ")=" +
                          show(m->get_noexcept(t.ids[0])) + " get(" + std::to_string(t.ids[0] + 1) + ")=" + show(m->get_noexcept(t.ids[0] + 1)));
        }
        op = "destroy";
        m.reset();
    } catch (const std::exception& e) {
        report_exception(w, op, e); ok = false;
    }
    ::unlink(path.c_str());
    return ok;
}

// which histories an implementation takes: dense-like types only ids <= 2^24+2; instances that cost
// milliseconds (mmap/file/large vector) get the short bound when the history contains a non-cheap id
// (every rule is prefix-closed, so the DFS can prune)
//   cost 0                        len <= len_mem over all ids the type can take
//   cost 1 (dense_mem_array)      cheap ids: len <= len_vec;   with an id >= 2^24-1: len <= len_noncheap
//   cost 2 sparse (mmap/file)     len <= len_slow_sparse over all 20 ids
//   cost 2 dense  (mmap/file)     cheap ids: len <= len_slow, one longer over the growth-step ids G; with an id >= 2^24-1: len <= len_noncheap
//   next to an id >= 2^24-1 (a 128 MiB fill per instance) the dense types get partner ids from P only (thorough: when len > 2)
struct HistBounds { size_t len_mem, len_vec, len_slow, len_slow_sparse, len_noncheap, step_fast, step_slow; bool restrict_partners; size_t len_path; };
static const std::vector<Id> A_GROW = {0, K16, K20 - 1, K20, K20 + 1, WIN - 1, WIN, WIN + 1};
static const std::vector<Id> A_PARTNER = {0, K16, K20 + 1, WIN + 1};
static bool in(const std::vector<Id>& v, Id x) { return std::find(v.begin(), v.end(), x) != v.end(); }

static bool admits(const Impl& im, const std::vector<Id>& ids, const HistBounds& b) {
    Id mx = 0; size_t noncheap = 0; bool all_grow = true, partners_ok = true;
    for (Id i : ids) {
        mx = std::max(mx, i);
        if (i > WIN + 1) ++noncheap; else if (!in(A_PARTNER, i)) partners_ok = false;
        if (!in(A_GROW, i)) all_grow = false;
    }
    if (im.dense_like && mx > DENSE_MAX_ID) return false;
    if (im.cost == 0) return ids.size() <= b.len_mem;
    if (im.with_path && ids.size() > b.len_path) return false;     // differs from the tmpfile variant only in how the fd is obtained
    if (!im.dense_like) return ids.size() <= b.len_slow_sparse;
    if (noncheap) return ids.size() <= b.len_noncheap && (partners_ok || (!b.restrict_partners && ids.size() <= 2));
    if (im.cost == 1) return ids.size() <= b.len_vec;
    return ids.size() <= b.len_slow || (all_grow && ids.size() <= b.len_slow + 1);
}

static bool g_hist_complete = true;
static uint64_t g_rank = 0;

static void hist_visit(const std::vector<Id>& ids, const HistBounds& b) {
    uint64_t rank = g_rank++;
    if (!g_args.mine(rank)) return;
    if (g_args.expired()) { g_hist_complete = false; return; }
    // scheme: all three for short histories, rank-derived otherwise (stated in RULE)
    int s_begin = 0, s_end = 3;
    if (ids.size() > 2) { s_begin = static_cast<int>(rank % 3); s_end = s_begin + 1; }
    if (ids.empty()) s_end = 1;
    for (int s = s_begin; s < s_end; ++s) {
        ++C["histories"];
        if (!ids.empty()) ++C["distinct_nontrivial"];
        for (const auto& im : impls()) {
            if (!admits(im, ids, b)) continue;
            if (!g_only.empty() && im.name != g_only) continue;
            bool big = !ids.empty() && im.dense_like && *std::max_element(ids.begin(), ids.end()) > WIN + 1;
            if ((im.cost == 2 || (im.cost == 1 && big)) && s != static_cast<int>(rank % 3)) continue;     // expensive instances: one scheme per history
            int k_end = im.flex == 2 ? static_cast<int>(ids.size()) : 0;
            for (int k = 0; k <= k_end; ++k) {
                run_trace(Trace{&im, ids, s, 'E', k});
                if (ids.size() >= 2 && ids.size() <= (im.cost == 2 || (im.cost == 1 && big) ? b.step_slow : b.step_fast)) run_trace(Trace{&im, ids, s, 'S', k});
            }
        }
    }
}

static void hist_dfs(std::vector<Id>& cur, const std::vector<Id>& alpha, const HistBounds& b) {
    if (!g_hist_complete) return;
    hist_visit(cur, b);
    size_t maxlen = std::max(std::max(b.len_mem, b.len_vec), std::max(b.len_slow + 1, std::max(b.len_slow_sparse, b.len_noncheap)));
    if (cur.size() >= maxlen) return;
    for (Id a : alpha) {
        if (std::find(cur.begin(), cur.end(), a) != cur.end()) continue;
        cur.push_back(a);
        bool any = false;                       // prune sub-trees no implementation admits
        for (const auto& im : impls()) if (admits(im, cur, b)) { any = true; break; }
        if (any) hist_dfs(cur, alpha, b);
        cur.pop_back();
    }
}

static void part_hist() {
    HistBounds b = g_args.thorough ? HistBounds{5, 4, 3, 3, 3, 3, 3, false, 2} : HistBounds{4, 3, 2, 2, 2, 3, 1, true, 1};
    std::vector<Id> alpha = A_CHEAP;
    alpha.insert(alpha.end(), A_EXP.begin(), A_EXP.end());
    alpha.insert(alpha.end(), A_HUGE.begin(), A_HUGE.end());
    std::vector<Id> cur;
    hist_dfs(cur, alpha, b);
    benum::bound("hist: every sequence of distinct ids over 20 boundary ids: len<=" + std::to_string(b.len_mem) + " for 5 in-memory configs (dense-like: the 15 ids <= 2^24+1); len<=" +
                 std::to_string(b.len_slow_sparse) + " for 3 sparse mmap/file configs; 12 ids <= 1310721: len<=" + std::to_string(b.len_vec) + " dense_mem_array, len<=" + std::to_string(b.len_slow) +
                 " (len<=" + std::to_string(b.len_slow + 1) + " over 8 growth-step ids) for 3 dense mmap/file configs; with an id near 2^24: len<=" + std::to_string(b.len_noncheap) + " for those 4" +
                 (b.restrict_partners ? " (partner from {0,2^16,2^20+1,1310721} or near 2^24)" : " (len 3: partners from {0,2^16,2^20+1,1310721} or near 2^24)") + "; stepwise len 2.." + std::to_string(b.step_fast) +
                 (b.step_slow >= 2 ? " (mmap/file: 2.." + std::to_string(b.step_slow) + ")" : " (in-memory configs)") +
                 (b.len_path < 9 ? "; file types created with a file name: len<=" + std::to_string(b.len_path) : ""), g_hist_complete);
}

// ------------------------------------------------------------------------------------------------
// part dump
#pragma pack(push, 1)
struct ListRec { uint64_t id; int32_t x, y; };
#pragma pack(pop)

static std::string read_file(const std::string& path) { return benum::slurp(path, ~static_cast<size_t>(0)); }

static int open_trunc(const std::string& path) { return ::open(path.c_str(), O_CREAT | O_RDWR | O_TRUNC, 0600); }

// file must be exactly (max id + 1) Locations: the model's value at model ids, the empty value elsewhere
struct MappedFile {      // read-only view of a file (MAP_POPULATE: one call instead of one fault per page)
    const char* data = nullptr; size_t size = 0;
    explicit MappedFile(const std::string& path) {
        int fd = ::open(path.c_str(), O_RDONLY);
        struct stat st;
        if (fd >= 0 && fstat(fd, &st) == 0 && st.st_size > 0) {
            void* p = mmap(nullptr, static_cast<size_t>(st.st_size), PROT_READ, MAP_SHARED | MAP_POPULATE, fd, 0);
            if (p != MAP_FAILED) { data = static_cast<const char*>(p); size = static_cast<size_t>(st.st_size); }
        }
        if (fd >= 0) ::close(fd);
    }
    ~MappedFile() { if (data) munmap(const_cast<char*>(data), size); }
};

static std::string check_array_file(const std::string& path, const Model& model) {
    MappedFile f{path};
    size_t want = model.empty() ? 0 : (model.rbegin()->first + 1) * sizeof(Loc);
    if (f.size != want) return "size " + std::to_string(f.size) + " bytes, expected " + std::to_string(want);
    const Loc* a = reinterpret_cast<const Loc*>(f.data);
    size_t n = f.size / sizeof(Loc);
    auto it = model.begin();
    for (size_t i = 0; i < n; ++i) {
        Loc expect = EMPTY;
        if (it != model.end() && it->first == i) { expect = it->second; ++it; }
        if (!same(a[i], expect)) return "slot " + std::to_string(i) + " holds " + show(a[i]) + ", expected " + show(expect);
    }
    return "";
}

static bool reload_and_check(const std::string& kind, const std::string& src, const std::string& how, const std::string& path,
                             Model model, int scheme, Id extend_id, const std::string& spec, const std::string& hist) {
    // kind: "list" -> sparse_file_array, "array" -> dense_file_array;  how: "fd" (constructor from fd) | "factory" (type,filename)
    Where w{"dump", (kind == "list" ? "sparse_file_array" : "dense_file_array"), "<-" + kind + "-of-" + src + "/via-" + how, spec, hist};
    ++C["evaluations"]; ++C["reloads"];
    const char* op = "reload";
    try {
        std::unique_ptr<MapT> m;
        if (how == "fd") {
            int fd = ::open(path.c_str(), O_RDWR);
            if (kind == "list") m.reset(new osmium::index::map::SparseFileArray<Id, Loc>(fd));
            else m.reset(new osmium::index::map::DenseFileArray<Id, Loc>(fd));
        } else {
            m = osmium::index::MapFactory<Id, Loc>::instance().create_map(w.impl + "," + path);
        }
        op = "sort"; m->sort();
        uint64_t st;
        if (!check_map(*m, model, hist_probes(), 2, w, &st)) return false;
        g_states.insert(st);
        // the reloaded index is a normal index: it must accept one more id
        op = "set"; m->set(extend_id, value_of(extend_id, scheme)); model[extend_id] = value_of(extend_id, scheme);
        ++C["transitions"];
        op = "sort"; m->sort();
        w.extra += "+extended";
        if (!check_map(*m, model, hist_probes(), 2, w, &st)) return false;
        g_states.insert(st);
    } catch (const std::exception& e) { report_exception(w, op, e); return false; }
    return true;
}

static void copy_file(const std::string& from, const std::string& to) {
    std::string d = read_file(from);
    int fd = open_trunc(to);
    size_t off = 0;
    while (off < d.size()) { ssize_t n = ::write(fd, d.data() + off, d.size() - off); if (n <= 0) break; off += static_cast<size_t>(n); }
    ::close(fd);
}

// full=false (quick tier): one reload (one of the two ways) per distinct dump content, array dumps and mmap/file sources
// only for ascending histories
static bool run_dump(const std::vector<Id>& ids, int scheme, bool full) {
    std::string spec = "dump;" + std::to_string(scheme) + ";" + (full ? "1" : "0") + ";" + ids_text(ids);
    std::string hist = ids_text(ids);
    Model model;
    for (Id i : ids) model[i] = value_of(i, scheme);
    Id mx = model.empty() ? 0 : model.rbegin()->first;
    Id extend_id = 7;                                            // after reloading: one more id, small or (sometimes) beyond the end
    if (mx <= 3 * WIN && (full ? ids.size() % 2 == 1 : mx <= K16)) extend_id = 3000000;
    bool ascending = std::is_sorted(ids.begin(), ids.end());
    // quick: array dumps for ascending histories of <= 2 ids, or 3 ids in three different 10 MiB windows
    bool array_ok = full || (ascending && (ids.size() <= 2 || (ids[0] / WIN != ids[1] / WIN && ids[1] / WIN != ids[2] / WIN)));
    bool reloaded[3] = {false, false, false};
    static std::set<std::string> unsupported, announced;     // learned once per process: which type refuses which dump
    bool ok = true;
    std::string f1 = g_tmp + "-d1", f2 = g_tmp + "-d2", fi = g_tmp + "-di";
    for (const auto& im : impls()) {
        if (im.flex == 2 || im.with_path) continue;
        if (im.dense_like && mx > DENSE_MAX_ID) continue;
        for (int variant = 0; variant < 3 && ok; ++variant) {
            // 0: sort, dump_as_list   1: dump_as_list without sorting first (reload, then sort)   2: sort, dump_as_array
            if (variant == 2 && (mx > 3 * WIN || !array_ok)) continue;                // an array dump is (max id + 1) * 8 bytes
            if (variant == 1 && (ascending || im.name == "sparse_mem_map")) continue;   // same bytes as variant 0
            if (!full && im.cost == 2 && !ascending) continue;                          // quick: mmap/file sources only for ascending histories
            if (unsupported.count(im.name + (variant == 2 ? ":array" : ":list"))) continue;
            FdScope fds;
            Where w{"dump", im.name, variant == 2 ? "/as-array" : variant == 1 ? "/as-list-unsorted" : "/as-list", spec, hist};
            ++C["evaluations"]; ++C["traces_validated_against_impl"];
            const char* op = "create";
            try {
                std::unique_ptr<MapT> m = make(im, fi);
                op = "set";
                for (Id i : ids) { m->set(i, value_of(i, scheme)); ++C["transitions"]; }
                op = "sort";
                if (variant != 1) m->sort();
                int fd = open_trunc(f1);
                bool supported = true;
                op = variant == 2 ? "dump_as_array" : "dump_as_list";
                try { if (variant == 2) m->dump_as_array(fd); else m->dump_as_list(fd); }
                catch (const std::runtime_error& e) {
                    // documented default: the type does not support this kind of dump (left open by the property)
                    if (std::string(e.what()).find("can't dump") == std::string::npos) throw;
                    supported = false;
                }
                ::close(fd);
                if (announced.insert(im.name + ":" + op).second) benum::setv("dump_support", im.name + ":" + op + (supported ? "=yes" : "=no"));
                if (!supported) { ++C["dump_unsupported"]; unsupported.insert(im.name + (variant == 2 ? ":array" : ":list")); continue; }
                ++C["dumps_checked"];
                if (variant == 2) {
                    std::string err = check_array_file(f1, model);
                    if (!err.empty()) {
                        V.report("dump/array-bytes-differ/" + im.name + "/max-" + idclass(mx), "history [" + hist + "] on " + im.name + ": dump_as_array file: " + err, spec);
                        ok = false; break;
                    }
                } else {
                    std::string data = read_file(f1), want;
                    // expected bytes: (id, x, y) records, ascending by id when sorted, insertion order otherwise
                    // (sparse_mem_map is always ordered)
                    std::vector<Id> order = ids;
                    if (variant == 0 || im.name == "sparse_mem_map") std::sort(order.begin(), order.end());
                    for (Id i : order) { ListRec r{i, value_of(i, scheme).x(), value_of(i, scheme).y()}; want.append(reinterpret_cast<const char*>(&r), sizeof r); }
                    if (data != want) {
                        V.report("dump/list-bytes-differ/" + im.name + w.extra, "history [" + hist + "] on " + im.name + ": dump_as_list wrote " +
                                 std::to_string(data.size()) + " bytes " + benum::hex(data.substr(0, 64)) + ", expected " + std::to_string(want.size()) + " bytes " + benum::hex(want.substr(0, 64)), spec);
                        ok = false; break;
                    }
                }
                // the source index itself must be unaffected by dumping
                op = "sort"; m->sort();
                uint64_t st;
                if (!check_map(*m, model, hist_probes(), 2, w, &st)) { ok = false; break; }
                g_states.insert(st);
                op = "destroy"; m.reset();
                const char* kind = variant == 2 ? "array" : "list";
                // quick: the bytes were just shown to be the model's bytes, so one reload per (history, kind of dump) suffices
                if (!full && reloaded[variant]) continue;
                reloaded[variant] = true;
                bool via_fd = full || (ids.size() + variant + scheme) % 2 == 0;
                // (the copy for the second reload is taken BEFORE the first one: a file-based index extends and rewrites the file it is opened on)
                if (full || !via_fd) copy_file(f1, f2);
                if (full || via_fd) ok = reload_and_check(kind, im.name, "fd", f1, model, scheme, extend_id, spec, hist);
                if (ok && (full || !via_fd)) ok = reload_and_check(kind, im.name, "factory", f2, model, scheme, extend_id, spec, hist);
            } catch (const std::exception& e) { report_exception(w, op, e); ok = false; }
        }
        ::unlink(f1.c_str()); ::unlink(f2.c_str()); ::unlink(fi.c_str());
        if (!ok) break;
    }
    return ok;
}

static void part_dump() {
    bool complete = true;
    uint64_t rank = 0;
    size_t maxlen = 3;
    std::vector<Id> alpha = A_DUMP;
    alpha.push_back(1ull << 32); alpha.push_back(~0ull);      // list dumps only (no array dump above 3 windows)
    std::vector<Id> cur;
    std::function<void()> dfs = [&]() {
        if (!complete) return;
        uint64_t r = rank++;
        if (g_args.mine(r)) {
            if (g_args.expired()) { complete = false; return; }
            int scheme = static_cast<int>(r % 3);
            ++C["histories"];
            if (!cur.empty()) ++C["distinct_nontrivial"];
            bool ok = run_dump(cur, scheme, g_args.thorough);
            if (ok && g_samples < 1 && cur.size() == 3) {
                ++g_samples;
                benum::sample("dump ids=[" + ids_text(cur) + "] scheme=" + std::to_string(scheme) + ": list dumps of 4 sparse types and array dumps of 3 dense + 3 sparse-array types "
                              "byte-identical to the model, reloaded via fd and via factory(file name), extended by one id, all probes agree");
            }
        }
        if (cur.size() >= maxlen) return;
        for (Id a : alpha) {
            if (std::find(cur.begin(), cur.end(), a) != cur.end()) continue;
            // quick: 3-id histories only in ascending order plus the two rotations that end/start with the smallest id
            if (!g_args.thorough && cur.size() == 2 && !(cur[0] < cur[1] && cur[1] < a) && !(cur[1] < a && a < cur[0])) continue;
            bool huge = a > 3 * WIN;
            if (huge && cur.size() >= 2) continue;
            size_t nh = 0; for (Id c : cur) if (c > 3 * WIN) ++nh;
            if (nh && cur.size() >= 2) continue;
            cur.push_back(a); dfs(); cur.pop_back();
        }
    };
    dfs();
    benum::bound(std::string("dump: every sequence of distinct ids len<=") + (g_args.thorough ? std::to_string(maxlen) : "2 (+ 3 ids: ascending and one rotation); quick: one reload per distinct dump content, array dumps and mmap/file sources for ascending histories only") + " over {0,1,2^16,1310720-1..+1,2621440-1..+1} (len<=2 with 2^32 / 2^64-1, list only) x "
                 "{list sorted, list unsorted, array} x every type x reload via {fd, factory+file name} x extend", complete);
}

// ------------------------------------------------------------------------------------------------
// part flexperm (H7 build: min_dense_entries = 7)
static const std::vector<Id>& flex_probes(Id mx) {
    static std::vector<Id> p;
    p.clear();
    for (Id i = 0; i <= mx + 2; ++i) p.push_back(i);
    for (Id i : {K16 - 1, K16, K16 + 1, K24, Id(1) << 32, ~Id(0)}) p.push_back(i);
    return p;
}

static bool run_flex(const std::vector<Id>& ids, int scheme, char mode, std::string* outcome) {
    ++C["evaluations"]; ++C["traces_validated_against_impl"];
    std::string spec = "flexperm;" + std::string(1, mode) + ";" + std::to_string(scheme) + ";" + ids_text(ids);
    Where w{"flexperm", "flex_mem[min_dense=" + std::to_string(static_cast<long long>(Flex::min_dense_entries)) + "]", "", spec, ids_text(ids)};
    Id mx = 0; for (Id i : ids) mx = std::max(mx, i);
    const std::vector<Id>& probes = flex_probes(mx);
    const char* op = "create";
    try {
        std::unique_ptr<MapT> m = osmium::index::MapFactory<Id, Loc>::instance().create_map("flex_mem");
        Flex* fx = dynamic_cast<Flex*>(m.get());
        if (!fx) { V.report("factory/flex_mem-is-not-FlexMem", "create_map(\"flex_mem\") did not return a FlexMem", spec); return false; }
        Model model; uint64_t st; int switched_at = -1;
        for (size_t i = 0; i < ids.size(); ++i) {
            op = "set"; m->set(ids[i], value_of(ids[i], scheme)); model[ids[i]] = value_of(ids[i], scheme);
            ++C["transitions"];
            if (switched_at < 0 && fx->is_dense()) switched_at = static_cast<int>(i + 1);
            if (mode == 'S' && i + 1 < ids.size()) {
                op = "sort"; m->sort();
                w.extra = fx->is_dense() ? "/dense" : "/sparse";
                if (!check_map(*m, model, probes, 0, w, &st)) return false;
                g_states.insert(st);
            }
        }
        op = "sort"; m->sort();
        w.extra = fx->is_dense() ? "/dense" : "/sparse";
        if (!check_map(*m, model, probes, mode == 'E' ? 2 : 0, w, &st)) return false;     // throwing get() on absent ids once per history
        g_states.insert(st);
        if (outcome) *outcome = switched_at < 0 ? "never" : "after-insert-" + std::to_string(switched_at);
        if (switched_at >= 0) ++C["flex_switched_mid_history"]; else ++C["flex_stayed_sparse"];
    } catch (const std::exception& e) { report_exception(w, op, e); return false; }
    return true;
}

static void part_flexperm() {
    if (Flex::min_dense_entries != 7) {
        fprintf(stderr, "h12: part flexperm needs a build with -DOSMIUM_VERIF_FLEXMEM_MIN_DENSE_ENTRIES=7 (hook H7), min_dense_entries is %lld\n",
                static_cast<long long>(Flex::min_dense_entries));
        exit(2);
    }
    std::vector<std::vector<Id>> sets = {
        {0, 1, 2, 3, 4, 5, 6, 7}, {1, 2, 3, 4, 5, 6, 7, 8}, {1, 3, 5, 7, 9, 11, 13, 15}, {2, 5, 8, 11, 14, 17, 20, 23},
        {0, 1, 2, 3, 4, 5, 6, 20}, {0, 1, 2, 3, 4, 5, 6, 30}, {3, 4, 5, 6, 7, 8, 9},
        {0, 3, 6, 9, 12, 15, 18, 21, 24}};
    if (g_args.thorough) { sets.push_back({0, 1, 2, 3, 4, 5, 6, 7, 8}); sets.push_back({1, 2, 3, 4, 5, 6, 7, 8, 9}); sets.push_back({0, 2, 4, 6, 8, 10, 12, 14, 26}); }
    bool complete = true;
    std::set<std::string> outcomes;
    for (size_t si = 0; si < sets.size() && complete; ++si) {
        std::vector<Id> p = sets[si];
        std::sort(p.begin(), p.end());
        uint64_t rank = 0;
        do {
            uint64_t r = rank++;
            if (!g_args.mine(r)) continue;
            if ((r & 1023) == g_args.shard && g_args.expired()) { complete = false; break; }
            int scheme = static_cast<int>((r / g_args.nshards) % 3);
            ++C["histories"]; ++C["distinct_nontrivial"];
            std::string out;
            bool ok = run_flex(p, scheme, 'E', &out) && run_flex(p, scheme, 'S', nullptr);
            if (ok) outcomes.insert("set" + std::to_string(si) + ":" + out);
            if (ok && g_samples < 2 && out != "never" && r > 1000) {
                ++g_samples;
                benum::sample("flexperm ids=[" + ids_text(p) + "] min_dense_entries=7: switched to dense " + out + " of " + std::to_string(p.size()) + ", all probes 0.." +
                              std::to_string(p.back() + 2) + " agree with the model before and after the switch");
            }
        } while (std::next_permutation(p.begin(), p.end()));
    }
    for (const auto& o : outcomes) benum::setv("flex_switch_outcomes", o);
    benum::bound("flexperm: all permutations of " + std::to_string(sets.size()) + " id sets of 7..9 ids around the (hooked) FlexMem threshold 7, end-only and stepwise", complete);
}

// ------------------------------------------------------------------------------------------------
// part nlfw: NodeLocationsForWays<Map, Map> over factory-created index pairs
using SId = osmium::object_id_type;

static std::string sids_text(const std::vector<SId>& ids) {
    std::string s;
    for (size_t i = 0; i < ids.size(); ++i) { if (i) s += ","; s += std::to_string(ids[i]); }
    return s;
}

static std::string order_class(const std::vector<SId>& ids) {
    bool asc_abs = true, asc_signed = true, neg = false, pos = false;
    for (size_t i = 0; i < ids.size(); ++i) {
        if (ids[i] < 0) neg = true; else pos = true;
        if (i && std::llabs(ids[i]) < std::llabs(ids[i - 1])) asc_abs = false;
        if (i && ids[i] < ids[i - 1]) asc_signed = false;
    }
    return std::string(asc_abs ? "abs-ascending" : asc_signed ? "signed-ascending-only" : "unordered") + (neg && pos ? "/mixed-sign" : neg ? "/negative" : "/positive");
}

struct NlfwCase { const Impl* pi; const Impl* ni; bool ignore; int waypos; std::vector<SId> ids; std::vector<SId> alpha; int scheme; };

static bool run_nlfw(const NlfwCase& c) {
    ++C["evaluations"]; ++C["traces_validated_against_impl"];
    std::string spec = "nlfw;" + c.pi->name + ";" + c.ni->name + ";" + (c.ignore ? "1" : "0") + ";" + std::to_string(c.waypos) + ";" +
                       std::to_string(c.scheme) + ";" + sids_text(c.ids) + ";" + sids_text(c.alpha);
    std::string cfgname = c.pi->name + "," + c.ni->name + (c.ignore ? "/ignore_errors" : "/strict");
    std::string ctx = "node stream [" + sids_text(c.ids) + "] way after " + std::to_string(c.waypos) + " nodes, index pair " + cfgname + ": ";
    std::string oc = order_class(c.ids);
    FdScope fds;
    std::string p1 = g_tmp + "-n1", p2 = g_tmp + "-n2";
    bool ok = true;
    try {
        std::unique_ptr<MapT> pos = make(*c.pi, p1), neg = make(*c.ni, p2);
        osmium::handler::NodeLocationsForWays<MapT, MapT> h{*pos, *neg};
        if (c.ignore) h.ignore_errors();
        std::map<SId, Loc> model;
        uint64_t st = 0x777;
        // one way through the handler; refs are given, expectations come from the model
        auto do_way = [&](const std::vector<SId>& refs, const char* which) -> bool {
            osmium::memory::Buffer b{1024, osmium::memory::Buffer::auto_grow::yes};
            {
                osmium::builder::WayBuilder wb{b};
                wb.set_id(17);
                osmium::builder::WayNodeListBuilder nl{wb};
                for (SId r : refs) nl.add_node_ref(r);
            }
            b.commit();
            osmium::Way& way = b.get<osmium::Way>(0);
            bool any_absent = false;
            for (SId r : refs) if (!model.count(r)) any_absent = true;
            bool threw = false;
            try { h.way(way); }
            catch (const osmium::not_found&) { threw = true; }
            bool expect_throw = !c.ignore && any_absent;
            if (threw && !expect_throw) {
                V.report("nlfw/not_found-thrown-but-all-nodes-arrived/" + cfgname + "/" + oc, ctx + which + " way with refs [" + sids_text(refs) + "] threw not_found although every referenced node was fed before" + (c.ignore ? " (ignore_errors set)" : ""), spec);
                return false;
            }
            if (!threw && expect_throw) {
                V.report("nlfw/not_found-not-thrown-for-missing-node/" + cfgname + "/" + oc, ctx + which + " way with refs [" + sids_text(refs) + "] did not throw although a referenced node never arrived", spec);
                return false;
            }
            if (threw) return true;     // state of the way after the exception is left open
            size_t i = 0;
            for (const auto& nr : way.nodes()) {
                SId r = refs[i++];
                auto it = model.find(r);
                Loc got = nr.location();
                ++C["probes_compared"];
                st = mix(mix(st, static_cast<uint64_t>(r)), (static_cast<uint64_t>(static_cast<uint32_t>(got.x())) << 32) | static_cast<uint32_t>(got.y()));
                std::string sign = r < 0 ? "negative-ref" : "positive-ref";
                if (nr.ref() != r) { V.report("nlfw/ref-id-changed/" + cfgname, ctx + "ref " + std::to_string(r) + " became " + std::to_string(nr.ref()), spec); return false; }
                if (it == model.end()) {
                    if (!same(got, EMPTY)) { V.report("nlfw/location-for-node-that-never-arrived/" + cfgname + "/" + sign + "/" + oc, ctx + which + " way: ref " + std::to_string(r) + " got " + show(got), spec); return false; }
                } else if (same(got, EMPTY)) {
                    V.report("nlfw/ref-without-location/" + cfgname + "/" + sign + "/" + oc, ctx + which + " way: ref " + std::to_string(r) + " got no location, node had " + show(it->second), spec); return false;
                } else if (!same(got, it->second)) {
                    V.report("nlfw/ref-wrong-location/" + cfgname + "/" + sign + "/" + oc, ctx + which + " way: ref " + std::to_string(r) + " got " + show(got) + ", node had " + show(it->second), spec); return false;
                }
            }
            return true;
        };
        auto present_refs = [&]() { std::vector<SId> r; for (const auto& kv : model) r.push_back(kv.first); std::reverse(r.begin(), r.end()); return r; };
        for (size_t i = 0; ok && i <= c.ids.size(); ++i) {
            if (static_cast<int>(i) == c.waypos && i < c.ids.size()) {
                // intermediate way: every alphabet id when errors are ignored, only nodes seen so far otherwise
                ok = do_way(c.ignore ? c.alpha : present_refs(), "intermediate");
            }
            if (i == c.ids.size() || !ok) break;
            osmium::memory::Buffer b{512, osmium::memory::Buffer::auto_grow::yes};
            Loc v = value_of(static_cast<Id>(c.ids[i] + 100), c.scheme);
            { osmium::builder::NodeBuilder nb{b}; nb.set_id(c.ids[i]); nb.set_location(v); }
            b.commit();
            h.node(b.get<osmium::Node>(0));
            model[c.ids[i]] = v;
            ++C["transitions"];
        }
        if (ok) ok = do_way(present_refs(), "final(present refs)");
        if (ok) ok = do_way(c.alpha, "final(all refs)");
        if (ok) g_states.insert(st);
    } catch (const std::exception& e) {
        V.report("exception/nlfw/" + cfgname + "/" + typeid(e).name(), ctx + "threw " + e.what(), spec); ok = false;
    }
    ::unlink(p1.c_str()); ::unlink(p2.c_str());
    return ok;
}

static void part_nlfw() {
    const std::vector<SId> alpha_sparse = {1, 2, 3, -1, -2, -3, static_cast<SId>(1ll << 32)};
    const std::vector<SId> alpha_dense = {1, 2, 3, -1, -2, -3, static_cast<SId>(K16)};
    std::vector<const Impl*> mem, slow;
    for (const auto& im : impls()) {
        if (im.flex == 2 || im.with_path) continue;
        (im.cost <= 1 ? mem : slow).push_back(&im);       // ids here are <= 2^16 for dense types: dense_mem_array is cheap
    }
    // pairs: every pair of in-memory types with the long bound; every pair involving an mmap/file/large-vector type
    // with the short bound (quick: (X,X), (X,sparse_mem_array), (sparse_mem_array,X); thorough: all 81 pairs)
    struct Pair { const Impl* p; const Impl* n; size_t maxlen; };
    std::vector<Pair> pairs;
    size_t len_mem = g_args.thorough ? 6 : 5, len_slow = g_args.thorough ? 3 : 2;
    for (auto* a : mem) for (auto* b : mem) pairs.push_back({a, b, len_mem});
    for (auto* x : slow) {
        if (g_args.thorough) {
            for (auto* y : slow) pairs.push_back({x, y, x == y ? len_slow : 2});
            for (auto* y : mem) { pairs.push_back({x, y, 2}); pairs.push_back({y, x, 2}); }
        } else {
            pairs.push_back({x, x, len_slow});
        }
    }
    bool complete = true;
    uint64_t rank = 0;
    for (const auto& pr : pairs) {
        const std::vector<SId>& alpha = pr.p->dense_like ? alpha_dense : alpha_sparse;
        std::vector<SId> cur;
        std::function<void()> dfs = [&]() {
            if (!complete) return;
            uint64_t r = rank++;
            if (g_args.mine(r)) {
                if (g_args.expired()) { complete = false; return; }
                ++C["histories"];
                if (!cur.empty()) ++C["distinct_nontrivial"];
                int scheme = static_cast<int>(r % 3);
                bool ok = true;
                for (int ign = 0; ign < 2 && ok; ++ign)
                    for (int wp = 0; wp <= static_cast<int>(cur.size()) && ok; ++wp) {
                        // quick, pairs of mmap/file types (5..20 ms per instance): intermediate way after the first node only
                        if (!g_args.thorough && pr.p->cost == 2 && wp != 1 && wp != static_cast<int>(cur.size())) continue;
                        ok = run_nlfw(NlfwCase{pr.p, pr.n, ign == 1, wp, cur, alpha, scheme});
                    }
                if (ok && g_samples < 2 && cur.size() >= 4 && order_class(cur).find("unordered/mixed") == 0) {
                    ++g_samples;
                    benum::sample("nlfw nodes=[" + sids_text(cur) + "] pos=" + pr.p->name + " neg=" + pr.n->name + ": a way after every prefix and final ways (refs = nodes seen / all of [" +
                                  sids_text(alpha) + "]) got exactly the locations of the nodes fed so far; not_found thrown iff strict and a node is missing");
                }
            }
            if (cur.size() >= pr.maxlen) return;
            for (SId a : alpha) {
                if (std::find(cur.begin(), cur.end(), a) != cur.end()) continue;
                cur.push_back(a); dfs(); cur.pop_back();
            }
        };
        dfs();
    }
    benum::bound("nlfw: every node stream of distinct ids len<=" + std::to_string(len_mem) + " over {1,2,3,-1,-2,-3,2^32|2^16} for all " + std::to_string(mem.size() * mem.size()) +
                 " pairs of in-memory index types, len<=2 (same type twice: len<=" + std::to_string(len_slow) + ") for " + std::to_string(pairs.size() - mem.size() * mem.size()) + " pairs with mmap/file/array types; x way position x {strict, ignore_errors}", complete);
}

// ------------------------------------------------------------------------------------------------
// part bulk: N consecutive ids minus holes, four insertion orders, every type
static uint64_t bitrev(uint64_t v, int bits) { uint64_t r = 0; for (int i = 0; i < bits; ++i) if (v >> i & 1) r |= 1ull << (bits - 1 - i); return r; }

// the i-th inserted id for an order (a bijection on 0..N-1)
static Id bulk_id(const std::string& order, uint64_t i, uint64_t N, int bits) {
    if (order == "ascending") return i;
    if (order == "descending") return N - 1 - i;
    if (order == "pair-swapped") { uint64_t j = i ^ 1; return j < N ? j : i; }       // 1,0,3,2,5,4,...
    // bit-reversed over the largest power of two <= N, the remaining ids appended ascending
    uint64_t P = 1ull << bits;
    return i < P ? bitrev(i, bits) : i;
}

static bool is_hole(Id id, uint64_t N) {
    return id == 3 || id == K16 - 1 || id == K16 || id == K20 - 1 || id == WIN || id == N - 2;
}

static bool run_bulk(const Impl& im, const std::string& order, uint64_t N, int scheme) {
    ++C["evaluations"]; ++C["traces_validated_against_impl"]; ++C["histories"]; ++C["distinct_nontrivial"];
    std::string spec = "bulk;" + im.name + ";" + order + ";" + std::to_string(N) + ";" + std::to_string(scheme);
    std::string label = im.name + (Flex::min_dense_entries == 7 && im.cfg == "flex_mem" ? "[min_dense=7]" : "");
    std::string ctx = std::to_string(N) + " consecutive ids minus 6 holes inserted " + order + " into " + label + ": ";
    int bits = 0; while ((2ull << bits) <= N) ++bits;
    FdScope fds;
    std::string path = g_tmp + "-b", fdump = g_tmp + "-bd";
    bool ok = true;
    const char* op = "create";
    auto fail = [&](const std::string& what, Id id, const std::string& detail) {
        V.report("bulk/" + what + "/" + label + "/" + order + "/" + idclass(id), ctx + "id " + std::to_string(id) + ": " + detail, spec);
        ok = false;
    };
    try {
        std::unique_ptr<MapT> m = make(im, path);
        Flex* fx = dynamic_cast<Flex*>(m.get());
        op = "set";
        int64_t switched_at = -1; uint64_t count = 0;
        for (uint64_t i = 0; i < N; ++i) {
            Id id = bulk_id(order, i, N, bits);
            if (is_hole(id, N)) continue;
            m->set(id, value_of(id, scheme));
            ++count;
            if (fx && switched_at < 0 && fx->is_dense()) switched_at = static_cast<int64_t>(count);
        }
        C["transitions"] += count;
        op = "sort"; m->sort();
        op = "lookup";
        uint64_t st = 0xb01c;
        for (Id id = 0; ok && id < N + 3; ++id) {
            bool present = id < N && !is_hole(id, N);
            Loc g = m->get_noexcept(id);
            st = mix(st, (static_cast<uint64_t>(static_cast<uint32_t>(g.x())) << 32) | static_cast<uint32_t>(g.y()));
            Loc want = present ? value_of(id, scheme) : EMPTY;
            if (!same(g, want)) {
                fail(present ? (same(g, EMPTY) ? "inserted-id-not-found" : "inserted-id-wrong-value") : "absent-id-found", id,
                     "get_noexcept() returned " + show(g) + ", expected " + show(want));
                break;
            }
            if (present) {
                try { Loc v = m->get(id); if (!same(v, want)) fail("inserted-id-wrong-value", id, "get() returned " + show(v) + ", expected " + show(want)); }
                catch (const osmium::not_found&) { fail("inserted-id-not-found", id, "get() threw not_found"); }
            }
        }
        C["probes_compared"] += N + 3;
        // absent ids: the holes, just beyond the end, and far away - through the throwing get() as well
        for (Id id : {Id(3), K16 - 1, K16, K20 - 1, WIN, N - 2, N, N + 1, N + K20, Id(1) << 25, Id(1) << 32, ~Id(0)}) {
            if (!ok) break;
            try { Loc v = m->get(id); fail("absent-id-found", id, "get() returned " + show(v) + " instead of throwing not_found"); }
            catch (const osmium::not_found& e) { if (typeid(e) != typeid(osmium::not_found)) fail("get-wrong-exception", id, e.what()); }
            catch (const std::exception& e) { fail("get-wrong-exception", id, e.what()); }
        }
        if (ok) g_states.insert(st);
        if (ok && fx) {
            std::string out = switched_at < 0 ? "stayed-sparse" : "switched-after-" + std::to_string(switched_at) + "-entries";
            benum::setv("bulk_flex_outcomes", label + ":" + order + ":N=" + std::to_string(N) + ":" + out);
            if (switched_at >= 0) ++C["flex_switched_mid_history"];
        }
        // array dump at scale: crosses several 10 MiB windows of the sparse dump; must be the dense image
        if (ok && (im.cfg.find("array") != std::string::npos) && !im.with_path) {
            op = "dump_as_array";
            int fd = open_trunc(fdump);
            m->dump_as_array(fd);
            ::close(fd);
            ++C["dumps_checked"];
            std::string data = read_file(fdump);
            if (data.size() != N * sizeof(Loc)) fail("array-dump-wrong-size", N - 1, "dump_as_array wrote " + std::to_string(data.size()) + " bytes, expected " + std::to_string(N * sizeof(Loc)));
            const Loc* a = reinterpret_cast<const Loc*>(data.data());
            for (Id id = 0; ok && id < N; ++id) {
                Loc want = is_hole(id, N) ? EMPTY : value_of(id, scheme);
                if (!same(a[id], want)) fail("array-dump-wrong-slot", id, "dump_as_array slot holds " + show(a[id]) + ", expected " + show(want));
            }
        }
        if (ok && g_samples < 1) {
            ++g_samples;
            benum::sample("bulk N=" + std::to_string(N) + " order=" + order + " impl=" + label + ": every id 0.." + std::to_string(N + 2) + " looked up, holes {3,65535,65536,1048575,1310720,N-2} and ids >= N not found" +
                          (fx ? std::string("; FlexMem ") + (switched_at < 0 ? "stayed sparse" : "switched to dense after " + std::to_string(switched_at) + " entries") : ""));
        }
        op = "destroy"; m.reset();
    } catch (const std::exception& e) {
        V.report("exception/bulk/" + label + "/" + order + "/" + op + "/" + typeid(e).name(), ctx + op + " threw " + e.what(), spec); ok = false;
    }
    ::unlink(path.c_str()); ::unlink(fdump.c_str());
    return ok;
}

static void part_bulk() {
    bool flex_only = std::find(g_args.rest.begin(), g_args.rest.end(), "--flex-only") != g_args.rest.end();
    uint64_t N = g_args.thorough && Flex::min_dense_entries != 7 ? K24 + 2 : 2 * K20 + 2;
    const char* orders[4] = {"ascending", "descending", "pair-swapped", "bit-reversed"};
    bool complete = true;
    uint64_t rank = 0;
    // most expensive types first so that the shards balance
    std::vector<const Impl*> list;
    for (const char* n : {"sparse_mem_map", "sparse_file_array@path", "sparse_file_array", "sparse_mmap_array", "sparse_mem_array", "flex_mem",
                          "dense_file_array@path", "dense_file_array", "dense_mmap_array", "dense_mem_array", "flex_mem:forced-dense"}) {
        const Impl* im = impl_by_name(n);
        if (flex_only && im->cfg != "flex_mem") continue;
        list.push_back(im);
    }
    for (const Impl* im : list)
        for (int o = 0; o < 4; ++o) {
            uint64_t r = rank++;
            if (!g_args.mine(r)) continue;
            if (g_args.expired()) { complete = false; continue; }
            run_bulk(*im, orders[o], N, static_cast<int>(r % 3));
        }
    benum::bound("bulk: N=" + std::to_string(N) + " ids, 4 orders (ascending, descending, pair-swapped, bit-reversed: four members of the order space) x " +
                 std::to_string(list.size()) + " impl configs" + (Flex::min_dense_entries == 7 ? " [FlexMem threshold hooked to 7]" : " [real FlexMem threshold 0xffffff]"), complete);
}

// ------------------------------------------------------------------------------------------------
// part asan (AddressSanitizer build, FlexMem threshold hooked to 7): the in-memory configurations (heap memory, so
// ASan sees every access; mmap-backed types have no redzones) in forked children. Rank-addressable cases:
//   [0, H)        every sequence of distinct ids, len <= 3, over {0,1,2,2^16-1,2^16,2^16+1}: all configs with cost <= 1,
//                 modes E and S, plus NodeLocationsForWays over (sparse_mem_array, dense_mem_array)
//   [H, H+5040)   every permutation of {3..9} through the auto-switching FlexMem
static std::vector<std::vector<Id>> asan_histories() {
    std::vector<std::vector<Id>> out;
    const std::vector<Id> alpha = {0, 1, 2, K16 - 1, K16, K16 + 1};
    std::vector<Id> cur;
    std::function<void()> dfs = [&]() {
        out.push_back(cur);
        if (cur.size() >= 3) return;
        for (Id a : alpha) if (!in(cur, a)) { cur.push_back(a); dfs(); cur.pop_back(); }
    };
    dfs();
    return out;
}

static std::vector<Id> nth_permutation(std::vector<Id> pool, uint64_t n) {     // factoradic unranking
    std::vector<Id> out;
    uint64_t f = 1;
    for (uint64_t i = 2; i < pool.size(); ++i) f *= i;
    for (size_t left = pool.size(); left > 0; --left) {
        uint64_t idx = n / f; n %= f;
        out.push_back(pool[idx]); pool.erase(pool.begin() + static_cast<long>(idx));
        if (left > 1) f /= (left - 1);
    }
    return out;
}

static void asan_case(uint64_t rank, const std::vector<std::vector<Id>>& H) {
    int scheme = static_cast<int>(rank % 3);
    ++C["histories"];
    if (rank < H.size()) {
        const std::vector<Id>& ids = H[rank];
        if (!ids.empty()) ++C["distinct_nontrivial"];
        for (const auto& im : impls()) {
            if (im.cost > 1) continue;
            int k_end = im.flex == 2 ? static_cast<int>(ids.size()) : 0;
            for (int k = 0; k <= k_end; ++k) {
                run_trace(Trace{&im, ids, scheme, 'E', k});
                if (ids.size() >= 2) run_trace(Trace{&im, ids, scheme, 'S', k});
            }
        }
        std::vector<SId> sids;
        for (size_t i = 0; i < ids.size(); ++i) sids.push_back(i % 2 ? -static_cast<SId>(ids[i]) - 1 : static_cast<SId>(ids[i]) + 1);
        std::vector<SId> alpha = sids; alpha.push_back(5); alpha.push_back(-5);
        for (int wp = 0; wp <= static_cast<int>(sids.size()); ++wp)
            run_nlfw(NlfwCase{impl_by_name("sparse_mem_array"), impl_by_name("dense_mem_array"), true, wp, sids, alpha, scheme});
    } else {
        ++C["distinct_nontrivial"];
        std::vector<Id> p = nth_permutation({3, 4, 5, 6, 7, 8, 9}, rank - H.size());
        run_flex(p, scheme, 'E', nullptr) && run_flex(p, scheme, 'S', nullptr);
    }
}

static std::string asan_describe(uint64_t rank, const std::vector<std::vector<Id>>& H) {
    if (rank < H.size()) return "history [" + ids_text(H[rank]) + "] on the in-memory configurations";
    return "permutation [" + ids_text(nth_permutation({3, 4, 5, 6, 7, 8, 9}, rank - H.size())) + "] through FlexMem (threshold 7)";
}

static bool asan_run(uint64_t begin, uint64_t end, const std::vector<std::vector<Id>>& H) {
    return benum::run_isolated(g_args, begin, end, [&](uint64_t r) { asan_case(r, H); },
        [&](uint64_t r, const std::string& what, const std::string& err) {
            V.report("memory/" + benum::death_class(what, err) + (r < H.size() ? "/short-history" : "/flexmem-switch-permutation"),
                     asan_describe(r, H) + ": child died (" + what + "): " + benum::clean(err.substr(0, 700), 700), "asan;" + std::to_string(r));
        });
}

static void part_asan() {
    if (Flex::min_dense_entries != 7) { fprintf(stderr, "h12: part asan needs the build with hook H7 (min_dense_entries=7)\n"); exit(2); }
    std::vector<std::vector<Id>> H = asan_histories();
    bool complete = asan_run(0, H.size() + 5040, H);
    benum::bound("asan: " + std::to_string(H.size()) + " histories (len<=3 over {0,1,2,2^16-1,2^16,2^16+1}) x 6 in-memory configs x {E,S} + NodeLocationsForWays, and 5040 permutations of {3..9} "
                 "through FlexMem(threshold 7), under AddressSanitizer in forked children", complete);
}

// ------------------------------------------------------------------------------------------------
static int replay(const std::string& spec) {
    std::vector<std::string> f = split(spec, ';');
    if (f[0] == "hist" && f.size() == 6) {
        const Impl* im = impl_by_name(f[1]);
        if (!im) return 2;
        run_trace(Trace{im, parse_ids(f[5]), atoi(f[3].c_str()), f[2][0], atoi(f[4].c_str())});
    } else if (f[0] == "dump" && f.size() == 4) {
        run_dump(parse_ids(f[3]), atoi(f[1].c_str()), f[2] == "1");
    } else if (f[0] == "flexperm" && f.size() == 4) {
        run_flex(parse_ids(f[3]), atoi(f[2].c_str()), f[1][0], nullptr);
    } else if (f[0] == "nlfw" && f.size() == 8) {
        auto sids = [](const std::string& s) { std::vector<SId> r; if (!s.empty()) for (const auto& t : split(s, ',')) r.push_back(strtoll(t.c_str(), nullptr, 10)); return r; };
        const Impl* p = impl_by_name(f[1]); const Impl* n = impl_by_name(f[2]);
        if (!p || !n) return 2;
        run_nlfw(NlfwCase{p, n, f[3] == "1", atoi(f[4].c_str()), sids(f[6]), sids(f[7]), atoi(f[5].c_str())});
    } else if (f[0] == "asan" && f.size() == 2) {
        std::vector<std::vector<Id>> H = asan_histories();
        uint64_t r = strtoull(f[1].c_str(), nullptr, 10);
        g_args.nshards = 1; g_args.shard = 0;
        asan_run(r, r + 1, H);
    } else if (f[0] == "bulk" && f.size() == 5) {
        const Impl* im = impl_by_name(f[1]);
        if (!im) return 2;
        run_bulk(*im, f[2], strtoull(f[3].c_str(), nullptr, 10), atoi(f[4].c_str()));
    } else {
        fprintf(stderr, "h12: cannot parse replay spec '%s'\n", spec.c_str());
        return 2;
    }
    return 0;
}

int main(int argc, char** argv) {
    g_args = benum::parse_args(argc, argv);
    if (g_args.shard % 8 != 0) g_samples = 100;      // SAMPLE lines from two shards per part (the driver keeps 24 in total)
    // keep freed heap memory in the process: 10^5..10^6 index instances allocate and free 0.5..10 MiB each, and
    // returning it to the kernel every time makes page faults (expensive in this VM) dominate the run
    mallopt(M_MMAP_THRESHOLD, 32 * 1024 * 1024);
    mallopt(M_TRIM_THRESHOLD, 1024 * 1024 * 1024);
    mallopt(M_TOP_PAD, 16 * 1024 * 1024);
    g_tmp = "/dev/shm/verif-c12-" + std::to_string(static_cast<long>(getpid()));
    // the value function must be injective on everything that can meet in one history
    {
        std::vector<Id> all = hist_probes();
        for (int s = 0; s < 3; ++s) {
            std::set<std::pair<int32_t, int32_t>> seen;
            for (Id i : all) {
                Loc v = value_of(i, s);
                if (same(v, EMPTY) || !v.valid() || !seen.insert({v.x(), v.y()}).second) { fprintf(stderr, "h12: value function not injective/valid at id %llu\n", static_cast<unsigned long long>(i)); return 2; }
            }
        }
    }
    if (g_args.replay) return replay(g_args.replay_spec);
    std::string part;
    for (size_t i = 0; i + 1 < g_args.rest.size(); ++i) {
        if (g_args.rest[i] == "--part") part = g_args.rest[i + 1];
        if (g_args.rest[i] == "--only") g_only = g_args.rest[i + 1];
    }
    {
        std::string types;
        for (const auto& t : osmium::index::MapFactory<Id, Loc>::instance().map_types()) types += t + " ";
        if (g_args.shard == 0) benum::note("factory map types: " + types + "| FlexMem min_dense_entries=" + std::to_string(static_cast<long long>(Flex::min_dense_entries)));
    }
    if (part == "hist") part_hist();
    else if (part == "dump") part_dump();
    else if (part == "flexperm") part_flexperm();
    else if (part == "nlfw") part_nlfw();
    else if (part == "bulk") part_bulk();
    else if (part == "asan") part_asan();
    else { fprintf(stderr, "h12: unknown --part '%s'\n", part.c_str()); return 2; }
    C.emit();
    char buf[32];
    for (uint64_t s : g_states) { snprintf(buf, sizeof buf, "%016llx", static_cast<unsigned long long>(s)); benum::setv("states", buf); }
    return 0;
}
