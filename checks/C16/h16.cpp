// C16 - object orderings are consistent strict weak orders; the order checker agrees.
//
// Every case drives the real comparators / the real CheckOrder / the real ObjectPointerCollection on
// real objects built once into one osmium::memory::Buffer. The oracle is a boring lexicographic model
// over a plain key (type, id, version, timestamp, visible) kept next to each object.
//
// Sub-spaces (selected with --part):
//   idorder     id_order over a wide 64-bit id set: every pair against the documented rule, every triple
//               for the order axioms
//   pairs       every ordered pair of the object grid (+ objects over the wide id set): each comparator
//               against the reference, asymmetry, reference vs pointer overloads, equality functors,
//               operator> <= >= !=, mutual consistency of the comparators and id_order
//   triples     every triple of the grid, per comparator: irreflexivity, asymmetry, transitivity,
//               transitivity of incomparability (domain: all timestamps set, or the comparator ignores them)
//   idtriples   every triple of objects that differ only in id (wide id set), per comparator
//   checkorder  every sequence of length <= L over (type x id) and every pair over the wide id set:
//               CheckOrder accepts <=> strictly ascending by (type, id rule)
//   sort        every sequence of length <= L over a small object grid: ObjectPointerCollection::sort with
//               each comparator gives a sorted permutation; CheckOrder accepts it <=> (type,id) distinct;
//               after unique(object_equal_type_id) it is accepted and the survivor is the first of its group
#include <benum/benum.hpp>

#include <osmium/builder/osm_object_builder.hpp>
#include <osmium/handler/check_order.hpp>
#include <osmium/memory/buffer.hpp>
#include <osmium/object_pointer_collection.hpp>
#include <osmium/osm/object_comparisons.hpp>
#include <osmium/visitor.hpp>

#include <algorithm>
#include <climits>
#include <memory>
#include <set>
#include <sstream>
#include <string>
#include <unordered_map>
#include <vector>

using benum::Args;
using osmium::OSMObject;
static benum::Counters C;
static benum::Violations V;
static std::set<std::string> OUTCOMES;      // diversity: distinct (comparator, deciding field, result) observed

// ------------------------------------------------------------------------------------------------
// objects: the plain key the oracle works on, and the real object the library works on
struct Key {
    int type;            // 0 node, 1 way, 2 relation (the documented file order)
    int64_t id;
    uint32_t version;
    uint32_t ts;         // 0 = unset
    bool visible;
};
struct Obj { OSMObject* p; Key k; };

static const char TCH[] = "nwr";

static std::string okey(const Key& k) {    // text form of an object, used in details and replay specs
    std::ostringstream s;
    s << TCH[k.type] << ':' << k.id << ':' << k.version << ':' << k.ts << ':' << (k.visible ? 1 : 0);
    return s.str();
}

static bool parse_okey(const std::string& t, Key& k) {
    if (t.size() < 2 || t[1] != ':') return false;
    const char* q = strchr(TCH, t[0]);
    if (!q || !*q) return false;
    k.type = static_cast<int>(q - TCH);
    long long id; unsigned long v, ts; int vis;
    if (sscanf(t.c_str() + 2, "%lld:%lu:%lu:%d", &id, &v, &ts, &vis) != 4) return false;
    k.id = id; k.version = static_cast<uint32_t>(v); k.ts = static_cast<uint32_t>(ts); k.visible = vis != 0;
    return true;
}

// All objects live in one non-growing buffer, so pointers stay valid for the whole run.
class Pool {
    osmium::memory::Buffer m_buffer;
    std::vector<Obj> m_objs;

    template <class TBuilder>
    size_t build(const Key& k) {
        {
            TBuilder b{m_buffer};
            b.set_id(k.id).set_version(k.version).set_timestamp(osmium::Timestamp{k.ts}).set_visible(k.visible);
        }
        return m_buffer.commit();
    }

public:
    Pool() : m_buffer(8UL * 1024 * 1024, osmium::memory::Buffer::auto_grow::no) {}

    size_t add(const Key& k) {
        size_t off = k.type == 0 ? build<osmium::builder::NodeBuilder>(k)
                   : k.type == 1 ? build<osmium::builder::WayBuilder>(k)
                                 : build<osmium::builder::RelationBuilder>(k);
        m_objs.push_back(Obj{&m_buffer.get<OSMObject>(off), k});
        return m_objs.size() - 1;
    }
    const std::vector<Obj>& objs() const { return m_objs; }
    const Obj& operator[](size_t i) const { return m_objs[i]; }
    size_t size() const { return m_objs.size(); }
};

// ------------------------------------------------------------------------------------------------
// id sets
static const int64_t I64MAX = INT64_MAX;
static const int64_t I64LOW = INT64_MIN + 1;   // INT64_MIN itself is outside the property's domain

static std::vector<int64_t> grid_ids() {       // the property's boundary ids
    return {I64LOW, -(1LL << 32), -2, -1, 0, 1, 2, 1LL << 32, I64MAX};
}
static std::vector<int64_t> more_ids() {       // grid ids + neighbours, for the CheckOrder sequences (thorough)
    return {I64LOW, I64LOW + 1, -(1LL << 32) - 1, -(1LL << 32), -(1LL << 31), -3, -2, -1, 0,
            1, 2, 3, 1LL << 31, 1LL << 32, (1LL << 32) + 1, I64MAX - 1, I64MAX};
}
// 0, +-(2^k + d) for k = 0..62 and |d| <= dmax, +-(INT64_MAX - d): the whole 64-bit range by magnitude
static std::vector<int64_t> wide_ids(int dmax) {
    std::set<int64_t> s;
    s.insert(0);
    for (int k = 0; k <= 62; ++k)
        for (int d = -dmax; d <= dmax; ++d) {
            int64_t v = (1LL << k) + d;
            if (v > 0) { s.insert(v); s.insert(-v); }
        }
    for (int d = 0; d <= dmax; ++d) { s.insert(I64MAX - d); s.insert(-(I64MAX - d)); }
    return std::vector<int64_t>(s.begin(), s.end());
}

// ------------------------------------------------------------------------------------------------
// THE ORACLE. Documented rules:
//  * types: nodes, then ways, then relations
//  * ids: "0 first, then negative IDs, then positive IDs, both ordered by their absolute values"
//  * then version ascending (reverse_version: later versions first), then timestamp ascending
//    (reverse_version: newest first); object_order_type_id_version_without_timestamp stops after the version
//  * equality: type, id and version
static inline int id_class(int64_t id) { return id == 0 ? 0 : id < 0 ? 1 : 2; }
static inline uint64_t id_abs(int64_t id) { return id < 0 ? 0 - static_cast<uint64_t>(id) : static_cast<uint64_t>(id); }
template <class T> static inline int cmp3(T a, T b) { return a < b ? -1 : b < a ? 1 : 0; }

static inline int ref_cmp_id(int64_t a, int64_t b) {
    int c = cmp3(id_class(a), id_class(b));
    return c ? c : cmp3(id_abs(a), id_abs(b));
}

enum Comp { OP_LESS = 0, FN_TIV = 1, FN_WOTS = 2, FN_REV = 3, NCOMP = 4 };
static const char* const COMP_NAME[NCOMP] = {"op-less", "order-type-id-version", "order-without-timestamp", "order-reverse-version"};
static inline bool uses_ts(Comp c) { return c != FN_WOTS; }

// expected value of comp(a, b): 0 = false, 1 = true, 2 = not stated by the property (accepted either way):
//  - a timestamp-using comparator on a pair where a timestamp is unset (outside the stated domain)
//  - the visible-flag tie break of reverse_version (not part of the statement)
static int ref_less(Comp c, const Key& a, const Key& b) {
    if (uses_ts(c) && (a.ts == 0 || b.ts == 0)) return 2;
    int d = cmp3(a.type, b.type);
    if (d) return d < 0;
    d = ref_cmp_id(a.id, b.id);
    if (d) return d < 0;
    d = cmp3(a.version, b.version);
    if (d) return c == FN_REV ? d > 0 : d < 0;
    if (c == FN_WOTS) return 0;
    d = cmp3(a.ts, b.ts);
    if (d) return c == FN_REV ? d > 0 : d < 0;
    if (c == FN_REV && a.visible != b.visible) return 2;
    return 0;
}

// which field decides the pair (first difference in documented order) - used for class keys and outcome sets
enum { D_TYPE = 0, D_ID = 10, D_VERSION = 60, D_TS = 61, D_TS_UNSET = 62, D_VISIBLE = 63, D_SAME = 64, D_N = 65 };
static inline int id_cls7(int64_t id) {      // zero | neg/pos x magnitude {s: < 2^31, m: < 2^62, x: up to 2^63-1}
    if (id == 0) return 0;
    uint64_t m = id_abs(id);
    int mag = m < (1ULL << 31) ? 0 : m < (1ULL << 62) ? 1 : 2;
    return (id < 0 ? 1 : 4) + mag;
}
static const char* const CLS7[7] = {"zero", "neg-s", "neg-m", "neg-x", "pos-s", "pos-m", "pos-x"};
static int decider(const Key& a, const Key& b) {
    if (a.type != b.type) return D_TYPE + a.type * 3 + b.type;
    if (a.id != b.id) return D_ID + id_cls7(a.id) * 7 + id_cls7(b.id);
    if (a.version != b.version) return D_VERSION;
    if (a.ts != b.ts) return (a.ts && b.ts) ? D_TS : D_TS_UNSET;
    if (a.visible != b.visible) return D_VISIBLE;
    return D_SAME;
}
static std::string dec_str(int d) {
    if (d < D_ID) return std::string("type:") + TCH[d / 3] + TCH[d % 3];
    if (d < D_VERSION) return std::string("id:") + CLS7[(d - D_ID) / 7] + "," + CLS7[(d - D_ID) % 7];
    return d == D_VERSION ? "version" : d == D_TS ? "timestamp" : d == D_TS_UNSET ? "timestamp-unset" : d == D_VISIBLE ? "visible" : "same";
}

// coarser form for the cross-check keys (sign classes only), so one root cause does not fan out into dozens of keys
static std::string dec_coarse(int d) {
    static const char* const SGN[7] = {"zero", "neg", "neg", "neg", "pos", "pos", "pos"};
    if (d < D_ID) return "type";
    if (d < D_VERSION) return std::string("id:") + SGN[(d - D_ID) / 7] + "," + SGN[(d - D_ID) % 7];
    return dec_str(d);
}

// ------------------------------------------------------------------------------------------------
// the real comparators
struct OpLess {    // operator< itself (ObjectPointerCollection::sort hands pointers to the comparator)
    bool operator()(const OSMObject& a, const OSMObject& b) const noexcept { return a < b; }
    bool operator()(const OSMObject* a, const OSMObject* b) const noexcept { return *a < *b; }
};

static inline bool real_less(Comp c, const OSMObject& a, const OSMObject& b) {
    switch (c) {
        case OP_LESS: return a < b;
        case FN_TIV:  return osmium::object_order_type_id_version{}(a, b);
        case FN_WOTS: return osmium::object_order_type_id_version_without_timestamp{}(a, b);
        default:      return osmium::object_order_type_id_reverse_version{}(a, b);
    }
}
static inline bool real_less_ptr(Comp c, const OSMObject* a, const OSMObject* b) {
    switch (c) {
        case OP_LESS: return *a < *b;
        case FN_TIV:  return osmium::object_order_type_id_version{}(a, b);
        case FN_WOTS: return osmium::object_order_type_id_version_without_timestamp{}(a, b);
        default:      return osmium::object_order_type_id_reverse_version{}(a, b);
    }
}

static Comp comp_by_name(const std::string& n) {
    for (int c = 0; c < NCOMP; ++c) if (n == COMP_NAME[c]) return static_cast<Comp>(c);
    return NCOMP;
}

// ------------------------------------------------------------------------------------------------
// pair checks (also the replay entry for "pair/...")
static uint8_t OUTBITS[NCOMP][D_N][3];
static uint64_t N_OUTSIDE_DOMAIN = 0, N_SORT_DISTINCT = 0, N_SORT_DUP = 0;

static void check_pair(const Obj& A, const Obj& B) {
    const Key& a = A.k; const Key& b = B.k;
    const OSMObject& x = *A.p; const OSMObject& y = *B.p;
    const int dc = decider(a, b);
    const std::string spec = "pair/" + okey(a) + "/" + okey(b);
    auto detail = [&](const std::string& what) { return what + " for a=" + okey(a) + " b=" + okey(b) + " (type:id:version:timestamp:visible)"; };

    bool got[NCOMP], rev[NCOMP];
    for (int ci = 0; ci < NCOMP; ++ci) {
        const Comp c = static_cast<Comp>(ci);
        got[ci] = real_less(c, x, y);
        rev[ci] = real_less(c, y, x);
        const int exp = ref_less(c, a, b);
        OUTBITS[ci][dc][exp == 2 ? 2 : got[ci]] = 1;
        if (uses_ts(c) && (a.ts == 0 || b.ts == 0)) { ++N_OUTSIDE_DOMAIN; continue; }   // outside the stated domain: counted only
        if (real_less_ptr(c, &x, &y) != got[ci])
            V.report(std::string("order/") + COMP_NAME[ci] + "/pointer-overload-differs/" + dec_str(dc),
                     detail("comparator called with pointers gives a different result than with references"), spec);
        if (exp != 2 && got[ci] != (exp == 1))
            V.report(std::string("order/") + COMP_NAME[ci] + "/wrong-result/" + dec_str(dc) + (exp ? "/expected-less" : "/expected-not-less"),
                     detail(std::string("comp(a,b) = ") + (got[ci] ? "true" : "false") + ", documented order says " + (exp ? "true" : "false")), spec);
        if (got[ci] && rev[ci])
            V.report(std::string("order/") + COMP_NAME[ci] + "/not-asymmetric/" + dec_str(dc), detail("comp(a,b) and comp(b,a) both true"), spec);
    }

    // equality: type, id and version (timestamps never matter here)
    const bool eq_tiv = a.type == b.type && a.id == b.id && a.version == b.version;
    const bool eq_ti = a.type == b.type && a.id == b.id;
    const std::string ed = dec_str(dc) + (eq_tiv ? "/expected-equal" : "/expected-different");
    if ((x == y) != eq_tiv) V.report("equal/op-eq/wrong-result/" + ed, detail("operator=="), spec);
    if ((x != y) != !(x == y)) V.report("equal/op-ne/not-negation-of-op-eq/" + dec_str(dc), detail("operator!="), spec);
    if (osmium::object_equal_type_id_version{}(x, y) != eq_tiv || osmium::object_equal_type_id_version{}(&x, &y) != eq_tiv)
        V.report("equal/equal-type-id-version/wrong-result/" + ed, detail("object_equal_type_id_version"), spec);
    if (osmium::object_equal_type_id{}(x, y) != eq_ti || osmium::object_equal_type_id{}(&x, &y) != eq_ti)
        V.report("equal/equal-type-id/wrong-result/" + dec_str(dc) + (eq_ti ? "/expected-equal" : "/expected-different"), detail("object_equal_type_id"), spec);

    const bool ts_set = a.ts != 0 && b.ts != 0;
    // the derived relational operators follow operator<
    if (ts_set && ((x > y) != rev[OP_LESS] || (x <= y) != !rev[OP_LESS] || (x >= y) != !got[OP_LESS]))
        V.report("order/op-greater-le-ge/inconsistent-with-op-less/" + dec_str(dc), detail("operator> / <= / >="), spec);

    // mutual consistency (implied by the reference; checked directly on the library's own answers)
    if (ts_set && got[FN_TIV] != got[OP_LESS])
        V.report("mutual/order-type-id-version-vs-op-less/" + dec_coarse(dc), detail("functor and operator< differ"), spec);
    if ((x == y) != (!got[FN_WOTS] && !rev[FN_WOTS]))
        V.report("mutual/op-eq-vs-order-without-timestamp/" + dec_coarse(dc), detail("a==b must hold exactly when neither is before the other ignoring timestamps"), spec);
    if (ts_set) {
        if (!eq_tiv && got[FN_WOTS] != got[OP_LESS])
            V.report("mutual/order-without-timestamp-vs-op-less/" + dec_coarse(dc), detail("differ although (type,id,version) differ"), spec);
        if (!eq_ti && got[FN_REV] != got[OP_LESS])
            V.report("mutual/order-reverse-version-vs-op-less/" + dec_coarse(dc), detail("differ although (type,id) differ"), spec);
        if (eq_ti && (a.version != b.version || a.ts != b.ts) && got[FN_REV] != rev[OP_LESS])
            V.report("mutual/order-reverse-version-not-reverse-of-op-less/" + dec_coarse(dc), detail("same (type,id): reverse_version(a,b) must equal b<a"), spec);
    }
    if (a.type == b.type && a.version == b.version && a.ts == b.ts) {
        const bool io = osmium::id_order{}(x.id(), y.id());
        for (int ci = 0; ci < NCOMP; ++ci)
            if (a.id != b.id && got[ci] != io && (ts_set || !uses_ts(static_cast<Comp>(ci))))
                V.report(std::string("mutual/id-order-vs-") + COMP_NAME[ci] + "/" + dec_coarse(dc), detail("objects differing only in id: comparator disagrees with id_order"), spec);
    }
}

// ------------------------------------------------------------------------------------------------
// triple checks. report_triple is the cold path and the replay entry ("triple/<comp>/a/b/c").
static void report_triple(Comp c, const Obj& A, const Obj& B, const Obj& Cc) {
    const OSMObject& x = *A.p; const OSMObject& y = *B.p; const OSMObject& z = *Cc.p;
    const std::string cn = COMP_NAME[c];
    const std::string spec = "triple/" + cn + "/" + okey(A.k) + "/" + okey(B.k) + "/" + okey(Cc.k);
    const std::string objs = " a=" + okey(A.k) + " b=" + okey(B.k) + " c=" + okey(Cc.k);
    const std::string dd = dec_str(decider(A.k, B.k)) + "+" + dec_str(decider(B.k, Cc.k));
    const bool ab = real_less(c, x, y), ba = real_less(c, y, x), bc = real_less(c, y, z), cb = real_less(c, z, y),
               ac = real_less(c, x, z), ca = real_less(c, z, x);
    if (real_less(c, x, x)) V.report("order/" + cn + "/not-irreflexive", "comp(a,a) is true for" + objs, spec);
    if (ab && ba) V.report("order/" + cn + "/not-asymmetric/" + dec_str(decider(A.k, B.k)), "comp(a,b) and comp(b,a) both true for" + objs, spec);
    if (ab && bc && !ac) V.report("order/" + cn + "/not-transitive/" + dd, "a<b and b<c but not a<c for" + objs, spec);
    if (!ab && !ba && !bc && !cb && (ac || ca))
        V.report("order/" + cn + "/incomparability-not-transitive/" + dd, "a~b and b~c but a,c are ordered for" + objs, spec);
}

template <class F>
static void run_triples(const Args& a, Comp c, F f, const std::vector<Obj>& g, const std::string& bound) {
    const size_t n = g.size();
    uint64_t ev = 0;
    bool complete = true;
    benum::Sampler smp(a.seed, 1);
    for (size_t i = 0; i < n; ++i) {
        if (!a.mine(i)) continue;
        if (a.expired()) { complete = false; break; }
        const OSMObject& x = *g[i].p;
        if (f(x, x)) report_triple(c, g[i], g[i], g[i]);
        for (size_t j = 0; j < n; ++j) {
            const OSMObject& y = *g[j].p;
            const bool ab = f(x, y), ba = f(y, x);
            if (ab && ba) report_triple(c, g[i], g[j], g[j]);
            const bool eab = !ab && !ba;
            for (size_t k = 0; k < n; ++k) {
                const OSMObject& z = *g[k].p;
                const bool bc = f(y, z), cb = f(z, y), ac = f(x, z), ca = f(z, x);
                if ((ab && bc && !ac) || (eab && !bc && !cb && (ac || ca))) report_triple(c, g[i], g[j], g[k]);
            }
            ev += n;
        }
        if (a.shard < 2 && smp.want(i)) {
            const size_t j = (i * 7 + 3) % n, k = (i * 13 + 5) % n;
            benum::sample(std::string("triple ") + COMP_NAME[c] + " a=" + okey(g[i].k) + " b=" + okey(g[j].k) + " c=" + okey(g[k].k) +
                          " -> a<b=" + std::to_string(f(x, *g[j].p)) + " b<c=" + std::to_string(f(*g[j].p, *g[k].p)) + " a<c=" + std::to_string(f(x, *g[k].p)));
        }
    }
    C["evaluations"] += ev;
    C["triples"] += ev;
    // non-trivial: at least two distinct objects in the triple: all but (i,i,i)
    C["distinct_nontrivial"] += ev - (ev / (n * n));
    benum::bound(bound, complete);
}

static void triples_all_comps(const Args& a, const std::vector<Obj>& with_ts, const std::vector<Obj>& all, const std::string& tag) {
    run_triples(a, OP_LESS, OpLess{}, with_ts, tag + "/op-less n=" + std::to_string(with_ts.size()));
    run_triples(a, FN_TIV, osmium::object_order_type_id_version{}, with_ts, tag + "/order-type-id-version n=" + std::to_string(with_ts.size()));
    run_triples(a, FN_REV, osmium::object_order_type_id_reverse_version{}, with_ts, tag + "/order-reverse-version n=" + std::to_string(with_ts.size()));
    run_triples(a, FN_WOTS, osmium::object_order_type_id_version_without_timestamp{}, all, tag + "/order-without-timestamp n=" + std::to_string(all.size()));
}

// ------------------------------------------------------------------------------------------------
// grids
struct Grid {
    std::vector<uint32_t> versions, tss;
    std::vector<int64_t> ids;
    std::vector<bool> vis;
};
static Grid object_grid(bool thorough) {
    Grid g;
    g.vis = {true, false};
    g.versions = {0, 1, 2, 0x7fffffffU};
    if (thorough) { g.ids = more_ids(); g.tss = {1, 2, 0x80000000U, 0xffffffffU, 0}; }   // 17 ids, one more timestamp
    else          { g.ids = grid_ids(); g.tss = {1, 2, 0xffffffffU, 0}; }                // the property's grid
    return g;
}
static void fill_grid(Pool& pool, const Grid& g, std::vector<Obj>& with_ts, std::vector<Obj>& all) {
    for (int t = 0; t < 3; ++t) for (int64_t id : g.ids) for (uint32_t v : g.versions) for (uint32_t ts : g.tss) for (bool vis : g.vis) {
        const Obj& o = pool[pool.add(Key{t, id, v, ts, vis})];
        all.push_back(o);
        if (ts != 0) with_ts.push_back(o);
    }
}

// ------------------------------------------------------------------------------------------------
// parts
static void part_idorder(const Args& a) {
    const std::vector<int64_t> w = wide_ids(a.thorough ? 3 : 1);
    const size_t n = w.size();
    const osmium::id_order io{};
    uint64_t ev = 0; bool complete = true;
    std::set<std::string> out;
    for (size_t i = 0; i < n; ++i) {
        if (!a.mine(i)) continue;
        if (a.expired()) { complete = false; break; }
        for (size_t j = 0; j < n; ++j) {
            const bool ab = io(w[i], w[j]), ba = io(w[j], w[i]);
            const bool exp = ref_cmp_id(w[i], w[j]) < 0;
            ++ev;
            if (ab != exp || (ab && ba)) {
                const std::string cls = std::string(CLS7[id_cls7(w[i])]) + "," + CLS7[id_cls7(w[j])];
                const std::string spec = "ids/" + std::to_string(w[i]) + "/" + std::to_string(w[j]) + "/" + std::to_string(w[j]);
                if (ab != exp) V.report("id-order/wrong-result/" + cls + (exp ? "/expected-less" : "/expected-not-less"),
                                        "id_order(" + std::to_string(w[i]) + ", " + std::to_string(w[j]) + ") = " + std::to_string(ab), spec);
                if (ab && ba) V.report("id-order/not-asymmetric/" + cls, "both directions true for " + std::to_string(w[i]) + ", " + std::to_string(w[j]), spec);
            }
            out.insert(std::string(CLS7[id_cls7(w[i])]) + "," + CLS7[id_cls7(w[j])] + (ab ? "/less" : "/not-less"));
            const bool eab = !ab && !ba;
            for (size_t k = 0; k < n; ++k) {
                const bool bc = io(w[j], w[k]), cb = io(w[k], w[j]), ac = io(w[i], w[k]), ca = io(w[k], w[i]);
                if ((ab && bc && !ac) || (eab && !bc && !cb && (ac || ca))) {
                    const std::string cls = std::string(CLS7[id_cls7(w[i])]) + "," + CLS7[id_cls7(w[j])] + "," + CLS7[id_cls7(w[k])];
                    V.report(std::string("id-order/") + (ab ? "not-transitive/" : "incomparability-not-transitive/") + cls,
                             "ids " + std::to_string(w[i]) + ", " + std::to_string(w[j]) + ", " + std::to_string(w[k]),
                             "ids/" + std::to_string(w[i]) + "/" + std::to_string(w[j]) + "/" + std::to_string(w[k]));
                }
            }
            ev += n;
        }
    }
    for (const auto& s : out) benum::setv("outcomes", "id_order/" + s);
    if (a.shard == 0) benum::sample("id_order(" + std::to_string(w[0]) + ", " + std::to_string(w[1]) + ") = " + std::to_string(io(w[0], w[1])) +
                                    "; id_order(0, " + std::to_string(w[0]) + ") = " + std::to_string(io(0, w[0])) + "; wide id set has " + std::to_string(n) + " ids");
    C["evaluations"] += ev;
    C["id_order_pairs_and_triples"] += ev;
    C["distinct_nontrivial"] += ev - (ev / ((n + 1) * n)) * 2;   // all but the (i,i) pair and the (i,i,i) triple
    benum::bound("idorder/pairs+triples n=" + std::to_string(n), complete);
}

static void part_pairs(const Args& a) {
    Pool pool;
    std::vector<Obj> with_ts, all;
    fill_grid(pool, object_grid(a.thorough), with_ts, all);
    for (int t = 0; t < 3; ++t) for (int64_t id : wide_ids(a.thorough ? 1 : 0)) all.push_back(pool[pool.add(Key{t, id, 1, 1, true})]);
    const size_t n = all.size();
    uint64_t ev = 0; bool complete = true;
    for (size_t i = 0; i < n; ++i) {
        if (!a.mine(i)) continue;
        if (a.expired()) { complete = false; break; }
        for (size_t j = 0; j < n; ++j) check_pair(all[i], all[j]);
        ev += n;
    }
    for (int c = 0; c < NCOMP; ++c) for (int d = 0; d < D_N; ++d) for (int r = 0; r < 3; ++r)
        if (OUTBITS[c][d][r]) benum::setv("outcomes", std::string(COMP_NAME[c]) + "/" + dec_str(d) + (r == 2 ? "/unspecified" : r ? "/less" : "/not-less"));
    if (a.shard == 0 && n > 100) {
        const Obj& x = all[17]; const Obj& y = all[n / 2 + 5];
        benum::sample("pair a=" + okey(x.k) + " b=" + okey(y.k) + " -> a<b=" + std::to_string(*x.p < *y.p) + " a==b=" + std::to_string(*x.p == *y.p) +
                      " rev(a,b)=" + std::to_string(osmium::object_order_type_id_reverse_version{}(*x.p, *y.p)));
    }
    C["evaluations"] += ev;
    C["pairs"] += ev;
    C["comparator_calls_outside_domain_counted_only"] += N_OUTSIDE_DOMAIN;
    C["distinct_nontrivial"] += ev - ev / n;     // all but (i,i)
    benum::bound("pairs n=" + std::to_string(n), complete);
}

static void part_triples(const Args& a) {
    Pool pool;
    std::vector<Obj> with_ts, all;
    fill_grid(pool, object_grid(a.thorough), with_ts, all);
    triples_all_comps(a, with_ts, all, "triples");
}

static void part_idtriples(const Args& a) {
    Pool pool;
    std::vector<Obj> g;
    std::vector<int64_t> w = wide_ids(a.thorough ? 1 : 0);
    for (int64_t id : w) g.push_back(pool[pool.add(Key{0, id, 1, 7, true})]);   // nodes differing only in id
    triples_all_comps(a, g, g, "idtriples");
}

// --- CheckOrder ---------------------------------------------------------------------------------
// feeds the objects one by one; returns the index at which out_of_order_error was thrown, -1 if the whole
// stream was accepted, -2 if something else was thrown
static int lib_check_order(const Obj* const* seq, size_t len) {
    osmium::handler::CheckOrder h;
    for (size_t i = 0; i < len; ++i) {
        try {
            osmium::apply_item(static_cast<const OSMObject&>(*seq[i]->p), h);
        } catch (const osmium::out_of_order_error&) {
            return static_cast<int>(i);
        } catch (...) {
            return -2;
        }
    }
    return -1;
}
// oracle: first position that is not strictly after its predecessor by (type, id rule); -1 if none
static int ref_check_order(const Obj* const* seq, size_t len) {
    for (size_t i = 1; i < len; ++i) {
        int d = cmp3(seq[i - 1]->k.type, seq[i]->k.type);
        if (!d) d = ref_cmp_id(seq[i - 1]->k.id, seq[i]->k.id);
        if (d >= 0) return static_cast<int>(i);
    }
    return -1;
}
static std::string co_pair_class(const Obj* const* seq, int at) {
    if (at <= 0) return "first-object";
    const Key& p = seq[at - 1]->k; const Key& c = seq[at]->k;
    if (p.type == c.type && p.id == c.id) return std::string("duplicate/") + TCH[c.type];
    if (p.type != c.type) return dec_str(decider(p, c));
    return std::string(1, TCH[c.type]) + "/" + dec_str(decider(p, c));
}
static std::string seq_str(const Obj* const* seq, size_t len) {
    std::string s;
    for (size_t i = 0; i < len; ++i) s += (i ? "/" : "") + okey(seq[i]->k);
    return s;
}
static uint64_t CO_ACCEPT = 0, CO_REJECT = 0;
static std::set<std::string> CO_OUT;

static void check_sequence(const Obj* const* seq, size_t len, bool collect) {
    const int lib = lib_check_order(seq, len);
    const int ref = ref_check_order(seq, len);
    if (lib == -1) ++CO_ACCEPT; else ++CO_REJECT;
    if (collect) CO_OUT.insert(lib == -1 ? "accept/len" + std::to_string(len) : "reject/" + co_pair_class(seq, lib));
    if (lib == ref) return;
    const std::string spec = "seq/" + seq_str(seq, len);
    const std::string what = "stream " + seq_str(seq, len) + ": CheckOrder " + (lib == -1 ? "accepted it" : lib == -2 ? "threw a foreign exception" : "threw at position " + std::to_string(lib)) +
                             ", the rule says " + (ref == -1 ? "strictly ascending (accept)" : "not ascending at position " + std::to_string(ref));
    if (lib == -2) V.report("check-order/wrong-exception-type", what, spec);
    else if (ref != -1 && (lib == -1 || lib > ref)) V.report("check-order/accepted-not-ascending/" + co_pair_class(seq, ref), what, spec);
    else V.report("check-order/rejected-ascending/" + co_pair_class(seq, lib), what, spec);
}

static void part_checkorder(const Args& a) {
    Pool pool;
    // (1) sequences over type x id
    std::vector<Obj> sym;
    const std::vector<int64_t> ids = a.thorough ? more_ids() : grid_ids();
    for (int t = 0; t < 3; ++t) for (int64_t id : ids) sym.push_back(pool[pool.add(Key{t, id, 1, 1, true})]);
    const unsigned maxlen = 4;
    uint64_t ev = 0, nontrivial = 0;
    unsigned nsamples = 0;
    for (unsigned len = 0; len <= maxlen; ++len) {
        const uint64_t total = benum::ipow(sym.size(), len);
        bool complete = true;
        const Obj* seq[8];
        for (uint64_t r = a.shard; r < total; r += a.nshards) {
            if ((r & 0xffff) == a.shard && a.expired()) { complete = false; break; }
            uint64_t x = r;
            for (unsigned p = 0; p < len; ++p) { seq[p] = &sym[x % sym.size()]; x /= sym.size(); }
            check_sequence(seq, len, true);
            ++ev;
            if (len >= 2) ++nontrivial;
            if (len == maxlen && a.shard == 0 && (r == a.nshards * 1000ULL || lib_check_order(seq, len) == -1) && nsamples++ < 3)
                benum::sample("CheckOrder stream " + seq_str(seq, len) + " -> " + (lib_check_order(seq, len) == -1 ? "accepted" : "out_of_order_error at " + std::to_string(lib_check_order(seq, len))));
        }
        benum::bound("checkorder/sequences len=" + std::to_string(len) + " over " + std::to_string(sym.size()) + " (type,id) symbols", complete);
    }
    // (2) thorough: length 5 over the property's 27 symbols
    if (a.thorough) {
        std::vector<Obj> s27;
        for (int t = 0; t < 3; ++t) for (int64_t id : grid_ids()) s27.push_back(pool[pool.add(Key{t, id, 1, 1, true})]);
        const uint64_t total = benum::ipow(s27.size(), 5);
        bool complete = true;
        const Obj* seq[8];
        for (uint64_t r = a.shard; r < total; r += a.nshards) {
            if ((r & 0xffff) == a.shard && a.expired()) { complete = false; break; }
            uint64_t x = r;
            for (unsigned p = 0; p < 5; ++p) { seq[p] = &s27[x % s27.size()]; x /= s27.size(); }
            check_sequence(seq, 5, true);
            ++ev; ++nontrivial;
        }
        benum::bound("checkorder/sequences len=5 over 27 (type,id) symbols", complete);
    }
    // (3) every pair of ids over the wide set, per type, and behind a lower-type object: the 64-bit range
    {
        const std::vector<int64_t> w = wide_ids(a.thorough ? 2 : 1);
        std::vector<Obj> wo[3];
        for (int t = 0; t < 3; ++t) for (int64_t id : w) wo[t].push_back(pool[pool.add(Key{t, id, 1, 1, true})]);
        bool complete = true;
        const Obj* seq[4];
        for (int t = 0; t < 3 && complete; ++t)
            for (size_t i = 0; i < w.size(); ++i) {
                if (!a.mine(i)) continue;
                if (a.expired()) { complete = false; break; }
                for (size_t j = 0; j < w.size(); ++j) {
                    seq[0] = &wo[t][i]; seq[1] = &wo[t][j];
                    check_sequence(seq, 2, true);
                    if (t > 0) { seq[0] = &wo[t - 1][j]; seq[1] = &wo[t][i]; seq[2] = &wo[t][j]; check_sequence(seq, 3, false); ++ev; ++nontrivial; }
                    ++ev; ++nontrivial;
                }
            }
        benum::bound("checkorder/id pairs over " + std::to_string(w.size()) + " wide ids x 3 types", complete);
    }
    for (const auto& s : CO_OUT) benum::setv("outcomes", "check_order/" + s);
    C["evaluations"] += ev;
    C["checkorder_streams"] += ev;
    C["checkorder_accepted"] += CO_ACCEPT;
    C["checkorder_rejected"] += CO_REJECT;
    C["distinct_nontrivial"] += nontrivial;     // streams with at least two objects
}

// --- sort -> CheckOrder -------------------------------------------------------------------------
template <class F>
static void sort_case(Comp c, F f, const Obj* const* seq, size_t len, const std::unordered_map<const OSMObject*, const Obj*>& byptr) {
    const std::string cn = COMP_NAME[c];
    auto spec = [&]() { return "sort/" + cn + "/" + seq_str(seq, len); };
    auto stream = [&](osmium::ObjectPointerCollection& coll) {
        std::string s;
        for (auto it = coll.ptr_begin(); it != coll.ptr_end(); ++it) { auto f2 = byptr.find(*it); s += (s.empty() ? "" : " ") + (f2 == byptr.end() ? std::string("?") : okey(f2->second->k)); }
        return s;
    };
    osmium::ObjectPointerCollection coll;
    for (size_t i = 0; i < len; ++i) coll.osm_object(*seq[i]->p);
    coll.sort(f);

    // permutation of the input
    std::vector<const OSMObject*> in, out;
    for (size_t i = 0; i < len; ++i) in.push_back(seq[i]->p);
    for (auto it = coll.ptr_begin(); it != coll.ptr_end(); ++it) out.push_back(*it);
    std::sort(in.begin(), in.end()); { auto o2 = out; std::sort(o2.begin(), o2.end()); if (o2 != in) { V.report("sort/" + cn + "/not-a-permutation", "input " + seq_str(seq, len) + " sorted: " + stream(coll), spec()); return; } }
    // sorted under the reference order
    std::vector<const Obj*> so;
    for (const OSMObject* p : out) so.push_back(byptr.at(p));
    for (size_t i = 1; i < so.size(); ++i)
        if (ref_less(c, so[i]->k, so[i - 1]->k) == 1)
            V.report("sort/" + cn + "/not-sorted/" + dec_str(decider(so[i - 1]->k, so[i]->k)), "input " + seq_str(seq, len) + " sorted: " + stream(coll), spec());
    // CheckOrder accepts the sorted stream <=> all (type,id) distinct
    bool distinct = true;
    for (size_t i = 0; i < len; ++i) for (size_t j = i + 1; j < len; ++j) if (seq[i]->k.type == seq[j]->k.type && seq[i]->k.id == seq[j]->k.id) distinct = false;
    auto accepted = [&](osmium::ObjectPointerCollection& cl) {
        osmium::handler::CheckOrder h;
        try { osmium::apply(cl.cbegin(), cl.cend(), h); } catch (const osmium::out_of_order_error&) { return false; }
        return true;
    };
    const bool acc = accepted(coll);
    if (distinct && !acc) V.report("sort+check-order/" + cn + "/rejected-sorted-distinct", "input " + seq_str(seq, len) + " sorted: " + stream(coll) + " rejected by CheckOrder", spec());
    if (!distinct && acc) V.report("sort+check-order/" + cn + "/accepted-duplicate-ids", "input " + seq_str(seq, len) + " sorted: " + stream(coll) + " accepted by CheckOrder", spec());
    ++(distinct ? N_SORT_DISTINCT : N_SORT_DUP);
    // unique by (type,id): one object per (type,id), the first of its group in the comparator's order; accepted
    coll.unique(osmium::object_equal_type_id{});
    std::set<std::pair<int, int64_t>> groups;
    for (size_t i = 0; i < len; ++i) groups.insert(std::make_pair(seq[i]->k.type, seq[i]->k.id));
    if (coll.size() != groups.size()) { V.report("sort+unique/" + cn + "/wrong-count", "input " + seq_str(seq, len) + " -> " + stream(coll), spec()); return; }
    for (auto it = coll.ptr_begin(); it != coll.ptr_end(); ++it) {
        const Obj* s = byptr.at(*it);
        for (size_t i = 0; i < len; ++i)
            if (seq[i]->k.type == s->k.type && seq[i]->k.id == s->k.id && ref_less(c, seq[i]->k, s->k) == 1)
                V.report("sort+unique/" + cn + "/survivor-not-first-of-group", "input " + seq_str(seq, len) + " -> " + stream(coll), spec());
    }
    if (!accepted(coll)) V.report("sort+unique+check-order/" + cn + "/rejected", "input " + seq_str(seq, len) + " -> " + stream(coll) + " rejected by CheckOrder", spec());
}

static void sort_all_comps(const Obj* const* seq, size_t len, const std::unordered_map<const OSMObject*, const Obj*>& byptr) {
    sort_case(OP_LESS, OpLess{}, seq, len, byptr);
    sort_case(FN_TIV, osmium::object_order_type_id_version{}, seq, len, byptr);
    sort_case(FN_WOTS, osmium::object_order_type_id_version_without_timestamp{}, seq, len, byptr);
    sort_case(FN_REV, osmium::object_order_type_id_reverse_version{}, seq, len, byptr);
}

static void sort_sequences(const Args& a, const std::vector<Obj>& sym, unsigned maxlen, const std::string& tag, uint64_t& ev, uint64_t& nontrivial) {
    std::unordered_map<const OSMObject*, const Obj*> byptr;
    for (const Obj& o : sym) byptr[o.p] = &o;
    for (unsigned len = 0; len <= maxlen; ++len) {
        const uint64_t total = benum::ipow(sym.size(), len);
        bool complete = true;
        const Obj* seq[8];
        for (uint64_t r = a.shard; r < total; r += a.nshards) {
            if ((r & 0x3fff) == a.shard && a.expired()) { complete = false; break; }
            uint64_t x = r;
            for (unsigned p = 0; p < len; ++p) { seq[p] = &sym[x % sym.size()]; x /= sym.size(); }
            sort_all_comps(seq, len, byptr);
            ev += 4;
            if (len >= 2) nontrivial += 4;
            if (len == maxlen && a.shard < 2 && r == a.shard + a.nshards * 777ULL) {
                osmium::ObjectPointerCollection coll;
                for (unsigned p = 0; p < len; ++p) coll.osm_object(*seq[p]->p);
                coll.sort(osmium::object_order_type_id_reverse_version{});
                std::string s;
                for (auto it = coll.ptr_begin(); it != coll.ptr_end(); ++it) s += " " + okey(byptr.at(*it)->k);
                benum::sample("sort(reverse_version) of " + seq_str(seq, len) + " ->" + s);
            }
        }
        benum::bound(tag + " len=" + std::to_string(len) + " over " + std::to_string(sym.size()) + " objects x 4 comparators", complete);
    }
}

static void part_sort(const Args& a) {
    Pool pool;
    uint64_t ev = 0, nontrivial = 0;
    // A: 27 (type,id) x (version,timestamp) in {(1,1),(2,1),(2,2)}
    std::vector<Obj> symA, symB;
    const uint32_t vt[3][2] = {{1, 1}, {2, 1}, {2, 2}};
    for (int t = 0; t < 3; ++t) for (int64_t id : grid_ids()) for (const auto& x : vt) symA.push_back(pool[pool.add(Key{t, id, x[0], x[1], true})]);
    // B: the 27 (type,id) symbols alone, one step longer
    for (int t = 0; t < 3; ++t) for (int64_t id : grid_ids()) symB.push_back(pool[pool.add(Key{t, id, 1, 1, true})]);
    sort_sequences(a, symB, a.thorough ? 5 : 4, "sort/ids", ev, nontrivial);
    sort_sequences(a, symA, a.thorough ? 4 : 3, "sort/versions", ev, nontrivial);
    C["evaluations"] += ev;
    C["sorts"] += ev;
    C["sorts_distinct_ids"] += N_SORT_DISTINCT;
    C["sorts_with_duplicate_ids"] += N_SORT_DUP;
    C["distinct_nontrivial"] += nontrivial;    // collections of at least two objects
}

// --- histories on ONE ObjectPointerCollection ---------------------------------------------------
// Operations: add one of 6 objects (distinct (type,id,version), so every comparator orders them totally), sort with two
// different comparators, unique(object_equal_type_id), clear - every sequence up to a depth. After EVERY operation the
// collection's pointer sequence must equal the model's (a plain vector handled with std::sort / std::unique and the reference
// order); after every sort the stream is given to CheckOrder. A collection object is used for a whole history: state kept
// inside the collection between operations (counts, cached order) is exercised, which single sorts never do.
static const char OPC_OPS[] = "abcdefSRUC";    // a-f add symbol 0-5, S sort(type_id_version), R sort(type_id_reverse_version), U unique, C clear
static void opc_history(const std::string& ops, const std::vector<Obj>& sym, const std::string& spec) {
    osmium::ObjectPointerCollection coll;
    std::vector<const Obj*> model;
    auto seq_text = [&](const std::vector<const Obj*>& v) { std::string t; for (const Obj* o : v) t += (t.empty() ? "" : " ") + okey(o->k); return t; };
    size_t step = 0;
    for (char op : ops) {
        ++step;
        const char* kind = "add";
        if (op >= 'a' && op <= 'f') { const Obj& o = sym[static_cast<size_t>(op - 'a')]; coll.osm_object(*o.p); model.push_back(&o); }
        else if (op == 'S' || op == 'R') {
            kind = "sort";
            const Comp c = op == 'S' ? FN_TIV : FN_REV;
            if (op == 'S') coll.sort(osmium::object_order_type_id_version{}); else coll.sort(osmium::object_order_type_id_reverse_version{});
            std::stable_sort(model.begin(), model.end(), [&](const Obj* x, const Obj* y) { return ref_less(c, x->k, y->k) == 1; });
        } else if (op == 'U') {
            kind = "unique";
            coll.unique(osmium::object_equal_type_id{});
            model.erase(std::unique(model.begin(), model.end(), [](const Obj* x, const Obj* y) { return x->k.type == y->k.type && x->k.id == y->k.id; }), model.end());
        } else { kind = "clear"; coll.clear(); model.clear(); }
        std::vector<const Obj*> got;
        bool unknown = false;
        for (auto it = coll.ptr_begin(); it != coll.ptr_end(); ++it) {
            const Obj* f = nullptr;
            for (const Obj& o : sym) if (o.p == *it) f = &o;
            if (!f) unknown = true; else got.push_back(f);
        }
        if (unknown || got != model || coll.size() != model.size() || coll.empty() != model.empty()) {
            V.report(std::string("collection-history/differs-from-model/after-") + kind, "history " + ops.substr(0, step) + ": collection holds [" + seq_text(got) + "]" + (unknown ? " + unknown pointers" : "") + ", model [" + seq_text(model) + "]", spec);
            return;
        }
        if (op == 'S') {      // ascending (type, id, version): CheckOrder must accept it iff all (type,id) are distinct
            bool distinct = true;
            for (size_t i = 1; i < model.size(); ++i) if (model[i]->k.type == model[i - 1]->k.type && model[i]->k.id == model[i - 1]->k.id) distinct = false;
            osmium::handler::CheckOrder h; bool acc = true;
            try { osmium::apply(coll.cbegin(), coll.cend(), h); } catch (const osmium::out_of_order_error&) { acc = false; }
            if (acc != distinct) { V.report(std::string("collection-history/check-order-") + (acc ? "accepts-duplicates" : "rejects-sorted") + "/after-sort", "history " + ops.substr(0, step) + ": [" + seq_text(got) + "]", spec); return; }
        }
    }
}

static void part_opchist(const Args& a) {
    Pool pool;
    std::vector<Obj> sym;
    const Key ks[6] = {{0, 1, 1, 1, true}, {0, 1, 2, 2, true}, {0, 2, 1, 1, true}, {1, 1, 1, 1, true}, {0, -1, 1, 1, true}, {0, 0, 3, 3, true}};
    for (const Key& k : ks) sym.push_back(pool[pool.add(k)]);
    const unsigned maxlen = a.thorough ? 8 : 6;
    const size_t NO = sizeof(OPC_OPS) - 1;
    uint64_t ev = 0, nontrivial = 0;
    for (unsigned len = 1; len <= maxlen; ++len) {
        const uint64_t total = benum::ipow(NO, len);
        bool complete = true;
        for (uint64_t r = a.shard; r < total; r += a.nshards) {
            if ((r & 0xfff) == a.shard && a.expired()) { complete = false; break; }
            std::string ops; uint64_t x = r; unsigned sorts = 0, adds = 0;
            for (unsigned p = 0; p < len; ++p) { const char c = OPC_OPS[x % NO]; x /= NO; ops += c; sorts += c == 'S' || c == 'R'; adds += c >= 'a' && c <= 'f'; }
            opc_history(ops, sym, "opc/" + ops);
            ++ev;
            if (sorts >= 1 && adds >= 2) ++nontrivial;
        }
        benum::bound("collection histories: every sequence of " + std::to_string(len) + " operations over {add x6, sort x2, unique, clear}", complete);
    }
    if (a.shard == 0) benum::sample("collection history abSUcS on one ObjectPointerCollection: add n1v1, add n1v2, sort, unique(type,id), add n2v1, sort -> [n:1:1:1:1 n:2:1:1:1], CheckOrder accepts");
    C["evaluations"] += ev;
    C["collection_histories"] += ev;
    C["distinct_nontrivial"] += nontrivial;     // histories with at least one sort and two adds
}

// ------------------------------------------------------------------------------------------------
static std::vector<std::string> split(const std::string& s, char sep) {
    std::vector<std::string> r; std::string cur;
    for (char ch : s) { if (ch == sep) { r.push_back(cur); cur.clear(); } else cur += ch; }
    r.push_back(cur);
    return r;
}

static int replay(const std::string& spec) {
    const std::vector<std::string> f = split(spec, '/');
    Pool pool;
    auto objs_from = [&](size_t first, std::vector<Obj>& out) {
        for (size_t i = first; i < f.size(); ++i) {
            Key k;
            if (f[i].empty()) continue;
            if (!parse_okey(f[i], k)) return false;
            pool.add(k);
        }
        out = pool.objs();
        return true;
    };
    std::vector<Obj> o;
    if (f[0] == "pair" && f.size() == 3 && objs_from(1, o)) { check_pair(o[0], o[1]); return 0; }
    if (f[0] == "triple" && f.size() == 5 && comp_by_name(f[1]) != NCOMP && objs_from(2, o)) { report_triple(comp_by_name(f[1]), o[0], o[1], o[2]); return 0; }
    if (f[0] == "ids" && f.size() == 4) {
        const int64_t x = strtoll(f[1].c_str(), nullptr, 10), y = strtoll(f[2].c_str(), nullptr, 10), z = strtoll(f[3].c_str(), nullptr, 10);
        const osmium::id_order io{};
        const bool ab = io(x, y), ba = io(y, x), bc = io(y, z), cb = io(z, y), ac = io(x, z), ca = io(z, x);
        const bool exp = ref_cmp_id(x, y) < 0;
        const std::string c2 = std::string(CLS7[id_cls7(x)]) + "," + CLS7[id_cls7(y)], c3 = c2 + "," + CLS7[id_cls7(z)];
        if (ab != exp) V.report("id-order/wrong-result/" + c2 + (exp ? "/expected-less" : "/expected-not-less"), "id_order(" + f[1] + ", " + f[2] + ") = " + std::to_string(ab), spec);
        if (ab && ba) V.report("id-order/not-asymmetric/" + c2, "both directions true for " + f[1] + ", " + f[2], spec);
        if (ab && bc && !ac) V.report("id-order/not-transitive/" + c3, "ids " + f[1] + ", " + f[2] + ", " + f[3], spec);
        if (!ab && !ba && !bc && !cb && (ac || ca)) V.report("id-order/incomparability-not-transitive/" + c3, "ids " + f[1] + ", " + f[2] + ", " + f[3], spec);
        return 0;
    }
    if (f[0] == "opc" && f.size() == 2) {
        std::vector<Obj> sym;
        const Key ks[6] = {{0, 1, 1, 1, true}, {0, 1, 2, 2, true}, {0, 2, 1, 1, true}, {1, 1, 1, 1, true}, {0, -1, 1, 1, true}, {0, 0, 3, 3, true}};
        for (const Key& k : ks) sym.push_back(pool[pool.add(k)]);
        opc_history(f[1], sym, spec);
        return 0;
    }
    if (f[0] == "seq" && objs_from(1, o)) {
        std::vector<const Obj*> seq;
        for (const Obj& x : o) seq.push_back(&x);
        check_sequence(seq.data(), seq.size(), false);
        return 0;
    }
    if (f[0] == "sort" && f.size() >= 2 && comp_by_name(f[1]) != NCOMP && objs_from(2, o)) {
        std::vector<const Obj*> seq;
        std::unordered_map<const OSMObject*, const Obj*> byptr;
        for (const Obj& x : o) { seq.push_back(&x); byptr[x.p] = &x; }
        switch (comp_by_name(f[1])) {
            case OP_LESS: sort_case(OP_LESS, OpLess{}, seq.data(), seq.size(), byptr); break;
            case FN_TIV:  sort_case(FN_TIV, osmium::object_order_type_id_version{}, seq.data(), seq.size(), byptr); break;
            case FN_WOTS: sort_case(FN_WOTS, osmium::object_order_type_id_version_without_timestamp{}, seq.data(), seq.size(), byptr); break;
            default:      sort_case(FN_REV, osmium::object_order_type_id_reverse_version{}, seq.data(), seq.size(), byptr); break;
        }
        return 0;
    }
    fprintf(stderr, "bad replay spec: %s\n", spec.c_str());
    return 2;
}

int main(int argc, char** argv) {
    Args a = benum::parse_args(argc, argv);
    if (a.replay) return replay(a.replay_spec);
    std::string part = a.rest.size() >= 2 && a.rest[0] == "--part" ? a.rest[1] : "";
    if (part == "idorder") part_idorder(a);
    else if (part == "pairs") part_pairs(a);
    else if (part == "triples") part_triples(a);
    else if (part == "idtriples") part_idtriples(a);
    else if (part == "checkorder") part_checkorder(a);
    else if (part == "sort") part_sort(a);
    else if (part == "opchist") part_opchist(a);
    else { fprintf(stderr, "unknown part\n"); return 2; }
    C.emit();
    return 0;
}
