"""C16 - object orderings are consistent strict weak orders; the order checker agrees (DESIGN.md section 5, C16)."""
LEVEL = "exploration"
RULE = ("finite-domain enumeration, every case distinct by construction (index tuple <-> case bijection), real comparators called on real "
        "objects built into one buffer; oracle = lexicographic comparison of a plain (type, id-class, |id|, version, timestamp) key "
        "written in the harness. (idorder) all pairs and triples of a wide 64-bit id set {0, +-(2^k+d), +-(INT64_MAX-d)} for id_order; "
        "(pairs) all ordered pairs of the object grid types x 9 boundary ids x versions {0,1,2,2^31-1} x timestamps {unset,1,2,2^32-1} x "
        "visible, plus one object per type and wide id: every comparator vs the reference, asymmetry, pointer overloads, equality "
        "functors, derived operators, mutual consistency; (triples) all triples of the grid per comparator (timestamp-using comparators "
        "on the all-timestamps-set sub-grid only): irreflexivity, asymmetry, transitivity, transitivity of incomparability; (idtriples) "
        "all triples of nodes differing only in id over the wide id set; (checkorder) all (type,id) streams of length <= 4 (+ length 5 "
        "over 27 symbols in thorough) and all id pairs over the wide set per type: accepted <=> strictly ascending; (sort) all sequences of "
        "length <= 4|5 over 27 (type,id) objects and <= 3|4 over 81 (type,id,version,timestamp) objects x 4 comparators: "
        "ObjectPointerCollection::sort gives a sorted permutation, CheckOrder accepts it <=> ids distinct, and after "
        "unique(object_equal_type_id) always. Non-trivial = pair/triple with at least two distinct objects (index tuples not all equal), "
        "stream or collection with at least two objects. Collection histories: every sequence of <= 6|8 operations over {add one of 6 "
        "objects, sort with two comparators, unique, clear} on ONE ObjectPointerCollection, compared with a vector model after every "
        "operation (state kept inside the collection between operations is exercised).")
DEADLINE = {"quick": 200, "thorough": 1200}
PARTS = ["idorder", "pairs", "checkorder", "sort", "opchist", "triples", "idtriples"]


def build(ctx):
    return {"h16": ctx.build("h16", ["h16.cpp"], opt="-O2")}


def run(ctx):
    exe = build(ctx)["h16"]
    if getattr(ctx, "build_only", False):
        return
    for part in PARTS:
        ctx.run_harness(exe, ["--part", part], shards=16)
    ctx.assume("ids range over INT64_MIN+1..INT64_MAX (positive_id() of INT64_MIN is undefined); comparators that use the timestamp are "
               "judged only on pairs/triples whose timestamps are all set (other pairs are evaluated and counted, never judged); the "
               "visible-flag tie break of object_order_type_id_reverse_version is not part of the statement: any answer is accepted as "
               "long as the order axioms hold; stability of ObjectPointerCollection::sort is not judged")
