// C10 - assembled areas are valid multipolygons that cover exactly the input's region.
//
// Exhaustive enumeration of segment arrangements on small lattices, each realised as OSM ways in several
// cuttings x member orders x way reversals x role assignments x affine images, pushed through the real
// osmium::area::Assembler and judged by an independent exact-integer geometry oracle.
//
// Sub-spaces (--part):
//   A  every set of kmin..kmax segments among the 36 point pairs of the 3x3 lattice
//   B  every even-degree subgraph of the 4x3 8-neighbour lattice (cycle space, 2^18 graphs)
//   C  every multiset over the 36 segments of the 3x3 lattice with total multiplicity <= n, multiplicities
//      0..3 and at least one segment doubled or tripled
// Duplicate nodes (different ids at one location, consecutive repeats) are a small family run on every
// valid arrangement (see explore_valid).
#include <benum/benum.hpp>

#include <osmium/area/assembler.hpp>
#include <osmium/area/assembler_config.hpp>
#include <osmium/area/problem_reporter.hpp>
#include <osmium/area/stats.hpp>
#include <osmium/builder/osm_object_builder.hpp>
#include <osmium/memory/buffer.hpp>
#include <osmium/osm/area.hpp>
#include <osmium/osm/relation.hpp>
#include <osmium/osm/way.hpp>

#include <algorithm>
#include <array>
#include <map>
#include <set>
#include <string>
#include <vector>

using benum::Args;
static benum::Counters C;
static benum::Violations V;

// ================================================================================================
// exact integer geometry (the oracle's only arithmetic: small integers, cross products)
struct Pt { long long x, y; };
static bool same(Pt a, Pt b) { return a.x == b.x && a.y == b.y; }
static long long cross(Pt a, Pt b, Pt c) { return (b.x - a.x) * (c.y - a.y) - (b.y - a.y) * (c.x - a.x); }
static bool in_box(Pt p, Pt a, Pt b) {
    return std::min(a.x, b.x) <= p.x && p.x <= std::max(a.x, b.x) && std::min(a.y, b.y) <= p.y && p.y <= std::max(a.y, b.y);
}

enum Rel : int8_t { R_NONE = 0, R_CROSS, R_OVERLAP, R_TJUNC };

// relation of two different segments ab, cd (not the same point pair)
static Rel seg_rel(Pt a, Pt b, Pt c, Pt d) {
    const long long o1 = cross(a, b, c), o2 = cross(a, b, d), o3 = cross(c, d, a), o4 = cross(c, d, b);
    if (o1 == 0 && o2 == 0) {   // on one line: compare the parameter intervals along a->b
        const long long dx = b.x - a.x, dy = b.y - a.y, dd = dx * dx + dy * dy;
        const long long tc = (c.x - a.x) * dx + (c.y - a.y) * dy, td = (d.x - a.x) * dx + (d.y - a.y) * dy;
        const long long lo = std::max(0LL, std::min(tc, td)), hi = std::min(dd, std::max(tc, td));
        return lo < hi ? R_OVERLAP : R_NONE;          // more than one common point
    }
    if (same(a, c) || same(a, d) || same(b, c) || same(b, d)) return R_NONE;   // meet in a shared end point only
    if (((o1 > 0 && o2 < 0) || (o1 < 0 && o2 > 0)) && ((o3 > 0 && o4 < 0) || (o3 < 0 && o4 > 0))) return R_CROSS;
    if ((o1 == 0 && in_box(c, a, b)) || (o2 == 0 && in_box(d, a, b)) || (o3 == 0 && in_box(a, c, d)) || (o4 == 0 && in_box(b, c, d)))
        return R_TJUNC;                                // an end point of one lies inside the other
    return R_NONE;
}

// even-odd test of q against a closed polyline / a segment soup; q must not lie on any segment
static bool crosses_ray(Pt q, Pt a, Pt b) {     // does the ray from q towards +x cross ab (half-open rule)
    if ((a.y > q.y) == (b.y > q.y)) return false;
    const Pt lo = a.y < b.y ? a : b, hi = a.y < b.y ? b : a;
    return cross(lo, hi, q) > 0;                  // q strictly left of the upward edge
}

// ================================================================================================
// lattices: every point pair is a segment id
static const int MAXP = 144;
struct Lattice {
    int w = 0, h = 0, n = 0, nseg = 0;
    std::vector<Pt> p;
    std::vector<int> sa, sb;
    int sid[MAXP][MAXP];
    std::vector<std::vector<int8_t>> rel;
    Rel relation(int s, int t) const { return rel.empty() ? seg_rel(p[sa[s]], p[sb[s]], p[sa[t]], p[sb[t]]) : static_cast<Rel>(rel[s][t]); }
    void init(int w_, int h_, bool table) {
        w = w_; h = h_; n = w * h;
        for (int y = 0; y < h; ++y) for (int x = 0; x < w; ++x) p.push_back(Pt{x, y});
        for (int a = 0; a < n; ++a) for (int b = a + 1; b < n; ++b) { sid[a][b] = sid[b][a] = nseg++; sa.push_back(a); sb.push_back(b); }
        for (int a = 0; a < n; ++a) sid[a][a] = -1;
        if (!table) return;
        rel.assign(nseg, std::vector<int8_t>(nseg, R_NONE));
        for (int s = 0; s < nseg; ++s) for (int t = 0; t < nseg; ++t) if (s != t) rel[s][t] = seg_rel(p[sa[s]], p[sb[s]], p[sa[t]], p[sb[t]]);
    }
};
static Lattice LAT[4];   // 0: 3x3, 1: 4x3, 2: 9x9, 3: 11x13 (2, 3: no pair table, relations computed on demand)

struct Img { long long sx, tx, sy, ty; bool in_domain; const char* name; };
static const Img IMG[4] = {
    {1, 0, 1, 0, true, "unit"},
    {1000003, -400000000, 999983, -300000000, true, "x1000003 y999983 negative offset"},
    {1, (1LL << 29) - 8, 1, -(1LL << 29), true, "corner x<=2^29 y>=-2^29"},
    {1, 1800000000LL - 8, 1, -900000000LL, false, "corner +180/-90 (outside the +-2^29 domain: counted only)"}};

// ================================================================================================
// one case = one call of the assembler
using Ways = std::vector<std::vector<int>>;
struct Case {
    int lat = 0, img = 0;
    bool way_mode = false;      // Assembler(Way) instead of Assembler(Relation, members)
    bool empty_areas = true;    // AssemblerConfig::create_empty_areas
    bool check_roles = false;   // AssemblerConfig::check_roles
    bool reporter = true;       // problem reporter set
    int ids = 0;                // 0: id = point index + 1; 1: every node ref a fresh id except a way's closing node; 2: all fresh
    Ways ways;                  // lattice point indices, final member order and node order
    std::string roles;          // per way: '-' empty, 'o' outer, 'i' inner, 'x' "foo"
};

static size_t write_spec(const Case& c, char* buf) {
    char* q = buf;
    *q++ = 'c'; *q++ = ':'; *q++ = 'L'; *q++ = static_cast<char>('0' + c.lat); *q++ = 'I'; *q++ = static_cast<char>('0' + c.img);
    *q++ = 'M'; *q++ = c.way_mode ? 'w' : 'r'; *q++ = 'E'; *q++ = c.empty_areas ? '1' : '0'; *q++ = 'K'; *q++ = c.check_roles ? '1' : '0';
    *q++ = 'P'; *q++ = c.reporter ? '1' : '0'; *q++ = 'D'; *q++ = static_cast<char>('0' + c.ids); *q++ = ':';
    for (char r : c.roles) *q++ = r;
    *q++ = ':';
    for (size_t i = 0; i < c.ways.size(); ++i) {
        if (i) *q++ = ',';
        for (size_t j = 0; j < c.ways[i].size(); ++j) {
            if (j) *q++ = '.';
            const int v = c.ways[i][j];
            if (v >= 100) *q++ = static_cast<char>('0' + v / 100);
            if (v >= 10) *q++ = static_cast<char>('0' + v / 10 % 10);
            *q++ = static_cast<char>('0' + v % 10);
        }
    }
    *q = 0;
    return static_cast<size_t>(q - buf);
}
static std::string spec_of(const Case& c) { char b[4000]; write_spec(c, b); return b; }

static bool parse_spec(const std::string& s, Case& c) {
    if (s.size() < 18 || s.compare(0, 2, "c:") != 0) return false;
    c.lat = s[3] - '0'; c.img = s[5] - '0'; c.way_mode = s[7] == 'w'; c.empty_areas = s[9] == '1'; c.check_roles = s[11] == '1';
    c.reporter = s[13] == '1'; c.ids = s[15] - '0';
    if (c.lat < 0 || c.lat > 3 || c.img < 0 || c.img > 3) return false;
    size_t r0 = 17, r1 = s.find(':', r0);
    if (r1 == std::string::npos) return false;
    c.roles = s.substr(r0, r1 - r0);
    c.ways.clear();
    std::vector<int> cur; int v = -1;
    for (size_t i = r1 + 1; i <= s.size(); ++i) {
        const char ch = i < s.size() ? s[i] : ',';
        if (ch >= '0' && ch <= '9') v = (v < 0 ? 0 : v * 10) + (ch - '0');
        else { if (v >= 0) { if (v >= LAT[c.lat].n) return false; cur.push_back(v); } v = -1; if (ch == ',') { c.ways.push_back(cur); cur.clear(); } }
    }
    return c.roles.size() == c.ways.size() && !c.ways.empty();
}

// ------------------------------------------------------------------------------------------------
// driving the library
struct Rep : osmium::area::ProblemReporter {
    unsigned dup_node = 0, touching = 0, intersection = 0, dup_segment = 0, overlapping = 0, not_closed = 0, role_outer = 0,
             role_inner = 0, multi_rings = 0, invalid_loc = 0, dup_way = 0, ways = 0;
    void report_duplicate_node(osmium::object_id_type, osmium::object_id_type, osmium::Location) override { ++dup_node; }
    void report_touching_ring(osmium::object_id_type, osmium::Location) override { ++touching; }
    void report_intersection(osmium::object_id_type, osmium::Location, osmium::Location, osmium::object_id_type, osmium::Location,
                             osmium::Location, osmium::Location) override { ++intersection; }
    void report_duplicate_segment(const osmium::NodeRef&, const osmium::NodeRef&) override { ++dup_segment; }
    void report_overlapping_segment(const osmium::NodeRef&, const osmium::NodeRef&) override { ++overlapping; }
    void report_ring_not_closed(const osmium::NodeRef&, const osmium::Way*) override { ++not_closed; }
    void report_role_should_be_outer(osmium::object_id_type, osmium::Location, osmium::Location) override { ++role_outer; }
    void report_role_should_be_inner(osmium::object_id_type, osmium::Location, osmium::Location) override { ++role_inner; }
    void report_way_in_multiple_rings(const osmium::Way&) override { ++multi_rings; }
    void report_invalid_location(osmium::object_id_type, osmium::object_id_type) override { ++invalid_loc; }
    void report_duplicate_way(const osmium::Way&) override { ++dup_way; }
    void report_way(const osmium::Way&) override { ++ways; }
};

struct RingOut { bool outer = true; int parent = -1; std::vector<int> pts; std::vector<long long> ids; bool foreign = false; };
struct LibOut {
    bool ret = false, threw = false; std::string what;
    size_t items = 0, areas = 0, rings_counted = 0; long long area_id = 0;
    std::vector<RingOut> rings;
    Rep rep; osmium::area::area_stats stats;
};

static const char* role_text(char r) { return r == 'o' ? "outer" : r == 'i' ? "inner" : r == 'x' ? "foo" : ""; }

static void ring_from(const osmium::NodeRefList& nrl, const Lattice& L, const Img& im, RingOut& r) {
    for (const auto& nr : nrl) {
        const long long X = nr.location().x() - im.tx, Y = nr.location().y() - im.ty;
        int idx = -1;
        if (X % im.sx == 0 && Y % im.sy == 0) {
            const long long x = X / im.sx, y = Y / im.sy;
            if (x >= 0 && x < L.w && y >= 0 && y < L.h) idx = static_cast<int>(y * L.w + x);
        }
        if (idx < 0) r.foreign = true;
        r.pts.push_back(idx); r.ids.push_back(nr.ref());
    }
}

static void run_lib(const Case& c, LibOut& o) {
    namespace ob = osmium::builder;
    using osmium::memory::Buffer;
    static Buffer in{1 << 16, Buffer::auto_grow::yes};
    static Buffer out{1 << 14, Buffer::auto_grow::yes};
    in.clear(); out.clear();
    const Lattice& L = LAT[c.lat]; const Img& im = IMG[c.img];
    std::vector<size_t> offs;
    long long fresh = 1000;
    for (size_t i = 0; i < c.ways.size(); ++i) {
        {
            ob::WayBuilder wb{in};
            wb.set_id(static_cast<osmium::object_id_type>(i + 1));
            ob::WayNodeListBuilder nb{wb};
            const auto& w = c.ways[i];
            long long first_id = 0;
            for (size_t j = 0; j < w.size(); ++j) {
                long long id = w[j] + 1;
                if (c.ids != 0) {
                    id = fresh++;
                    if (j == 0) first_id = id;
                    if (c.ids == 1 && j + 1 == w.size() && j > 0 && w[j] == w[0]) id = first_id;
                }
                const Pt& p = L.p[w[j]];
                nb.add_node_ref(osmium::NodeRef{id, osmium::Location{static_cast<int32_t>(p.x * im.sx + im.tx), static_cast<int32_t>(p.y * im.sy + im.ty)}});
            }
        }
        offs.push_back(in.commit());
    }
    size_t roff = 0;
    if (!c.way_mode) {
        {
            ob::RelationBuilder rb{in};
            rb.set_id(7);
            {
                ob::RelationMemberListBuilder mb{rb};
                for (size_t i = 0; i < c.ways.size(); ++i) mb.add_member(osmium::item_type::way, static_cast<osmium::object_id_type>(i + 1), role_text(c.roles[i]));
            }
            {
                ob::TagListBuilder tb{rb};
                tb.add_tag("type", "multipolygon");
                tb.add_tag("natural", "water");
            }
        }
        roff = in.commit();
    }
    osmium::area::AssemblerConfig cfg;
    cfg.problem_reporter = c.reporter ? &o.rep : nullptr;
    cfg.create_empty_areas = c.empty_areas;
    cfg.check_roles = c.check_roles;
    osmium::area::Assembler assembler{cfg};
    try {
        if (c.way_mode) {
            o.ret = assembler(in.get<osmium::Way>(offs[0]), out);
        } else {
            std::vector<const osmium::Way*> members;
            for (size_t off : offs) members.push_back(&in.get<osmium::Way>(off));
            o.ret = assembler(in.get<osmium::Relation>(roff), members, out);
        }
    } catch (const std::exception& e) { o.threw = true; o.what = e.what(); }
    o.stats = assembler.stats();
    for (const auto& item : out) {
        ++o.items;
        if (item.type() != osmium::item_type::area) continue;
        ++o.areas;
        const auto& area = static_cast<const osmium::Area&>(item);
        o.area_id = area.id();
        const auto nr = area.num_rings();
        o.rings_counted = nr.first + nr.second;
        for (const auto& outer : area.outer_rings()) {
            RingOut r; r.outer = true; ring_from(outer, L, im, r);
            const int oi = static_cast<int>(o.rings.size());
            o.rings.push_back(std::move(r));
            for (const auto& inner : area.inner_rings(outer)) {
                RingOut q; q.outer = false; q.parent = oi; ring_from(inner, L, im, q);
                o.rings.push_back(std::move(q));
            }
        }
    }
}

// ================================================================================================
// the oracle
enum Kind { K_EMPTY, K_VALID, K_CROSS, K_OVERLAP, K_TJUNC, K_OPEN };
static const char* kind_name(Kind k) {
    static const char* n[] = {"empty", "valid", "crossing", "overlap", "t-junction", "open"};
    return n[k];
}
struct Cls {
    Kind kind = K_EMPTY;
    std::vector<int> S;        // segment ids with odd multiplicity = the even-odd arrangement
    std::vector<int> mult;     // multiplicity per segment id in the input
    bool all_even = false;     // every point has even degree in S
    bool has_dup = false;      // some segment occurs more than once
    int comps = 0, touch = 0;  // connected components of S; points of degree >= 4
    bool nontrivial = false;   // S not empty and contains a cycle or a conflicting pair
    int degenerate = 0;        // zero-length way steps (consecutive nodes at one location)
};

static Cls classify(const Lattice& L, const Ways& ways) {
    static Cls memo[4];   // the realisations of one arrangement follow each other: keep the last classification per lattice
    Cls k;
    k.mult.assign(static_cast<size_t>(L.nseg), 0);
    for (const auto& w : ways)
        for (size_t j = 1; j < w.size(); ++j) {
            if (w[j] == w[j - 1]) { ++k.degenerate; continue; }
            if (++k.mult[static_cast<size_t>(L.sid[w[j - 1]][w[j]])] > 1) k.has_dup = true;
        }
    Cls& m = memo[&L - LAT];
    if (m.mult == k.mult) { const int d = k.degenerate; k = m; k.degenerate = d; return k; }
    for (int s = 0; s < L.nseg; ++s) if (k.mult[static_cast<size_t>(s)] & 1) k.S.push_back(s);
    if (k.S.empty()) { k.kind = K_EMPTY; m = k; return k; }
    int deg[MAXP] = {0}, uf[MAXP];
    for (int i = 0; i < L.n; ++i) uf[i] = i;
    auto find = [&](int v) { while (uf[v] != v) v = uf[v] = uf[uf[v]]; return v; };
    int worst = R_NONE;
    for (size_t i = 0; i < k.S.size(); ++i) {
        const int s = k.S[i];
        ++deg[L.sa[s]]; ++deg[L.sb[s]];
        uf[find(L.sa[s])] = find(L.sb[s]);
        for (size_t j = i + 1; j < k.S.size(); ++j) {
            const int r = L.relation(s, k.S[j]);
            if (r != R_NONE && (worst == R_NONE || r < worst)) worst = r;   // priority crossing > overlap > t-junction
        }
    }
    int used = 0;
    k.all_even = true;
    for (int v = 0; v < L.n; ++v) {
        if (deg[v] == 0) continue;
        ++used;
        if (deg[v] & 1) k.all_even = false;
        if (deg[v] >= 4) ++k.touch;
        if (find(v) == v) ++k.comps;
    }
    const bool has_cycle = static_cast<int>(k.S.size()) > used - k.comps;
    k.nontrivial = has_cycle || worst != R_NONE;
    k.kind = worst == R_CROSS ? K_CROSS : worst == R_OVERLAP ? K_OVERLAP : worst == R_TJUNC ? K_TJUNC : !k.all_even ? K_OPEN : K_VALID;
    m = k;
    return k;
}

static std::string shape_class(const Cls& k) {
    return "components=" + std::string(k.comps >= 3 ? "3+" : std::to_string(k.comps)) + ",touching-points=" + (k.touch >= 3 ? "3+" : std::to_string(k.touch));
}

struct Verdict {
    bool ok = true; std::string key, detail;
    bool has_rings = false;
    std::string canon;                // canonical ring structure (valid results)
    std::vector<int8_t> seg_kind;     // per segment id: 1 in an outer ring, 2 in an inner ring, 0 not in a ring
    void fail(const std::string& k, const std::string& d) { if (ok) { ok = false; key = k; detail = d; } }
};

static std::string ring_text(const RingOut& r) {
    std::string s = r.outer ? "outer[" : "inner[";
    for (size_t i = 0; i < r.pts.size(); ++i) { if (i) s += ','; s += std::to_string(r.pts[i]); }
    return s + "]";
}
static std::string rings_text(const std::vector<RingOut>& rs) {
    std::string s;
    for (const auto& r : rs) { if (!s.empty()) s += ' '; s += ring_text(r); }
    return s.empty() ? "(no rings)" : s;
}
static std::string rot_canon(const std::vector<int>& pts) {   // closed ring, rotation-normalised (direction kept)
    std::vector<int> v(pts.begin(), pts.end() - 1);
    std::vector<int> best;
    for (size_t r = 0; r < v.size(); ++r) {
        if (v[r] != *std::min_element(v.begin(), v.end())) continue;
        std::vector<int> t(v.begin() + static_cast<long>(r), v.end());
        t.insert(t.end(), v.begin(), v.begin() + static_cast<long>(r));
        if (best.empty() || t < best) best = t;
    }
    std::string s;
    for (int x : best) { s += static_cast<char>('a' + x); }
    return s;
}

// Judge the rings of an area produced for a valid arrangement S (ring segments == S is established first).
static void judge_rings(const Lattice& L, const Cls& k, const std::vector<RingOut>& rings, Verdict& v) {
    const size_t nr = rings.size();
    // 1. every ring closed, >= 4 points, no zero-length step, only input locations
    for (const auto& r : rings) {
        if (r.foreign) return v.fail("area/ring-has-location-not-in-input", ring_text(r));
        if (r.pts.size() < 4) return v.fail("area/ring-too-short", ring_text(r));
        if (r.pts.front() != r.pts.back()) return v.fail("area/ring-not-closed", ring_text(r));
        for (size_t i = 1; i < r.pts.size(); ++i) if (r.pts[i] == r.pts[i - 1]) return v.fail("area/ring-zero-length-segment", ring_text(r));
    }
    // 2. multiset of ring segments == S (so the even-odd fill of the rings is the even-odd fill of the input)
    std::vector<int> cnt(L.nseg, 0);
    v.seg_kind.assign(L.nseg, 0);
    for (const auto& r : rings) for (size_t i = 1; i < r.pts.size(); ++i) { const int s = L.sid[r.pts[i - 1]][r.pts[i]]; ++cnt[s]; v.seg_kind[s] = r.outer ? 1 : 2; }
    for (int s = 0; s < L.nseg; ++s) {
        const bool in_s = (k.mult[s] & 1) != 0;
        const std::string st = std::to_string(L.sa[s]) + "-" + std::to_string(L.sb[s]);
        if (cnt[s] > 1) return v.fail("area/ring-segments-differ-from-input/segment-used-twice", "segment " + st);
        if (cnt[s] == 1 && !in_s) return v.fail("area/ring-segments-differ-from-input/segment-not-in-even-odd-input", "segment " + st);
        if (cnt[s] == 0 && in_s) return v.fail("area/ring-segments-differ-from-input/input-segment-missing", "segment " + st);
    }
    // 3. orientation by exact signed area: outer rings counter-clockwise (positive), inner rings clockwise
    std::vector<long long> area2(nr, 0);
    for (size_t i = 0; i < nr; ++i) {
        const auto& r = rings[i];
        for (size_t j = 1; j < r.pts.size(); ++j) { const Pt a = L.p[r.pts[j - 1]], b = L.p[r.pts[j]]; area2[i] += a.x * b.y - a.y * b.x; }
        if (area2[i] == 0) return v.fail("area/ring-orientation/zero-signed-area", ring_text(r));
        if (r.outer && area2[i] < 0) return v.fail("area/ring-orientation/outer-ring-clockwise", ring_text(r));
        if (!r.outer && area2[i] > 0) return v.fail("area/ring-orientation/inner-ring-counter-clockwise", ring_text(r));
    }
    // 4. sample points: for each segment its mid point moved by 1/1024 of the normal to either side (coordinates scaled
    //    by 1024; closer than any other segment of a valid arrangement on these lattices - verified here, not assumed).
    //    Samples and their even-odd parity against S depend on S only: cached for the realisations of one arrangement.
    struct Smp { Pt q; int seg; int parity; };
    static std::vector<Smp> smp; static std::vector<int> smp_S; static const Lattice* smp_L = nullptr;
    if (smp_L != &L || smp_S != k.S) {
        smp.clear(); smp_S = k.S; smp_L = &L;
        for (int s : k.S) {
            const Pt a = L.p[L.sa[s]], b = L.p[L.sb[s]];
            const Pt m{512 * (a.x + b.x), 512 * (a.y + b.y)}, nrm{-(b.y - a.y), b.x - a.x};
            for (int side = -1; side <= 1; side += 2) {
                Smp x{Pt{m.x + side * nrm.x, m.y + side * nrm.y}, s, 0};
                for (int t : k.S) {
                    const Pt c{1024 * L.p[L.sa[t]].x, 1024 * L.p[L.sa[t]].y}, d{1024 * L.p[L.sb[t]].x, 1024 * L.p[L.sb[t]].y};
                    // self-check of the sampling argument: the step from the mid point to the sample meets no other segment
                    if (t != s && (seg_rel(m, x.q, c, d) != R_NONE || (cross(c, d, x.q) == 0 && in_box(x.q, c, d)))) { fprintf(stderr, "h10: sample point argument broken\n"); exit(3); }
                    x.parity ^= crosses_ray(x.q, c, d);
                }
                smp.push_back(x);
            }
        }
    }
    auto SC = [&](int idx) { return Pt{1024 * L.p[idx].x, 1024 * L.p[idx].y}; };
    std::vector<std::vector<char>> in(nr, std::vector<char>(smp.size(), 0));
    for (size_t i = 0; i < nr; ++i)
        for (size_t j = 0; j < smp.size(); ++j) {
            int n = 0;
            for (size_t e = 1; e < rings[i].pts.size(); ++e) n += crosses_ray(smp[j].q, SC(rings[i].pts[e - 1]), SC(rings[i].pts[e]));
            in[i][j] = static_cast<char>(n & 1);
        }
    // 5. every inner ring lies inside the outer ring it is attached to, and that is the innermost outer ring around it
    for (size_t i = 0; i < nr; ++i) {
        if (rings[i].outer) continue;
        const size_t par = static_cast<size_t>(rings[i].parent);
        int first_inside = -1;
        for (size_t j = 0; j < smp.size(); ++j) {
            if (v.seg_kind[smp[j].seg] != 2 || !in[i][j]) continue;
            bool mine = false;   // sample belongs to a segment of this very ring
            for (size_t e = 1; e < rings[i].pts.size() && !mine; ++e) mine = L.sid[rings[i].pts[e - 1]][rings[i].pts[e]] == smp[j].seg;
            if (!mine) continue;
            if (first_inside < 0) first_inside = static_cast<int>(j);
            if (!in[par][j]) return v.fail("area/inner-attached-to-wrong-outer/inner-not-inside-that-outer", ring_text(rings[i]) + " attached to " + ring_text(rings[par]));
        }
        if (first_inside >= 0) {
            size_t best = par;
            for (size_t o = 0; o < nr; ++o) if (rings[o].outer && in[o][static_cast<size_t>(first_inside)] && area2[o] < area2[best]) best = o;
            if (best != par) return v.fail("area/inner-attached-to-wrong-outer/not-the-innermost-enclosing-outer", ring_text(rings[i]) + " attached to " + ring_text(rings[par]) + " instead of " + ring_text(rings[best]));
        }
    }
    // 6. covered region == even-odd fill of the input, on every face of the arrangement
    for (size_t j = 0; j < smp.size(); ++j) {
        const int par = smp[j].parity;
        int cover = 0;
        for (size_t o = 0; o < nr; ++o) {
            if (!rings[o].outer || !in[o][j]) continue;
            bool hole = false;
            for (size_t i = 0; i < nr; ++i) if (!rings[i].outer && static_cast<size_t>(rings[i].parent) == o && in[i][j]) hole = true;
            if (!hole) ++cover;
        }
        if (cover == par) continue;
        const std::string at = "face next to segment " + std::to_string(L.sa[smp[j].seg]) + "-" + std::to_string(L.sb[smp[j].seg]);
        if (cover > 1) return v.fail("area/region-differs-from-even-odd-fill/outer-rings-overlap", at);
        if (cover == 0) return v.fail("area/region-differs-from-even-odd-fill/face-not-covered", at);
        return v.fail("area/region-differs-from-even-odd-fill/covered-face-is-outside", at);
    }
    // 7. valid in the OGC sense: no ring passes through a point twice, and within one polygon (outer ring + its inner rings)
    //    the rings touch in a tree-like fashion only (a cycle in the ring / touching-point graph disconnects the interior)
    for (const auto& r : rings) {
        std::vector<char> seen(static_cast<size_t>(L.n), 0);
        for (size_t i = 0; i + 1 < r.pts.size(); ++i) { if (seen[static_cast<size_t>(r.pts[i])]) return v.fail("area/not-ogc-valid/ring-passes-through-a-point-twice", ring_text(r)); seen[static_cast<size_t>(r.pts[i])] = 1; }
    }
    for (size_t o = 0; o < nr; ++o) {
        if (!rings[o].outer) continue;
        std::vector<size_t> grp{o};
        for (size_t i = 0; i < nr; ++i) if (!rings[i].outer && static_cast<size_t>(rings[i].parent) == o) grp.push_back(i);
        if (grp.size() < 2) continue;
        std::vector<int> uf(grp.size() + static_cast<size_t>(L.n));
        for (size_t i = 0; i < uf.size(); ++i) uf[i] = static_cast<int>(i);
        auto find = [&](int x) { while (uf[static_cast<size_t>(x)] != x) x = uf[static_cast<size_t>(x)] = uf[static_cast<size_t>(uf[static_cast<size_t>(x)])]; return x; };
        std::vector<int> users(static_cast<size_t>(L.n), 0);
        for (size_t g = 0; g < grp.size(); ++g) for (size_t i = 0; i + 1 < rings[grp[g]].pts.size(); ++i) ++users[static_cast<size_t>(rings[grp[g]].pts[i])];
        for (size_t g = 0; g < grp.size(); ++g)
            for (size_t i = 0; i + 1 < rings[grp[g]].pts.size(); ++i) {
                const int pt = rings[grp[g]].pts[i];
                if (users[static_cast<size_t>(pt)] < 2) continue;
                const int a = find(static_cast<int>(g)), b = find(static_cast<int>(grp.size()) + pt);
                if (a == b) return v.fail("area/not-ogc-valid/polygon-interior-disconnected-by-touching-rings", ring_text(rings[o]) + " and its inner rings touch in a cycle at point " + std::to_string(pt));
                uf[static_cast<size_t>(a)] = b;
            }
    }
    // canonical structure
    std::vector<std::string> outs;
    for (size_t o = 0; o < nr; ++o) {
        if (!rings[o].outer) continue;
        std::vector<std::string> inn;
        for (size_t i = 0; i < nr; ++i) if (!rings[i].outer && static_cast<size_t>(rings[i].parent) == o) inn.push_back(rot_canon(rings[i].pts));
        std::sort(inn.begin(), inn.end());
        std::string s = rot_canon(rings[o].pts);
        for (const auto& x : inn) s += "(" + x + ")";
        outs.push_back(s);
    }
    std::sort(outs.begin(), outs.end());
    for (const auto& s : outs) v.canon += s + ";";
}

static std::string stats_text(const LibOut& o) {
    return "ret=" + std::to_string(o.ret) + " items=" + std::to_string(o.items) + " rings: " + rings_text(o.rings) +
           " | stats intersections=" + std::to_string(o.stats.intersections) + " open_rings=" + std::to_string(o.stats.open_rings) +
           " duplicate_segments=" + std::to_string(o.stats.duplicate_segments) + " touching_rings=" + std::to_string(o.stats.touching_rings) +
           " | reported intersections=" + std::to_string(o.rep.intersection) + " not_closed=" + std::to_string(o.rep.not_closed);
}

static Verdict judge(const Case& c, const Cls& k, const LibOut& o) {
    Verdict v;
    const Lattice& L = LAT[c.lat];
    if (o.threw) { v.fail("assembler/exception-escapes/" + std::string(kind_name(k.kind)), o.what); return v; }
    // the buffer holds what the return value says
    if (o.items != o.areas || o.areas > 1) { v.fail("assembler/output-buffer/unexpected-items", stats_text(o)); return v; }
    if (o.ret && o.areas != 1) { v.fail("assembler/output-buffer/returned-true-without-committed-area", stats_text(o)); return v; }
    if (!o.ret && o.areas != 0) { v.fail("assembler/output-buffer/returned-false-but-area-committed", stats_text(o)); return v; }
    if (o.rings_counted != o.rings.size()) { v.fail("area/inner-ring-without-preceding-outer-ring", stats_text(o)); return v; }
    if (o.areas == 1 && o.area_id != (c.way_mode ? 2 : 15)) { v.fail("area/wrong-area-id", "id " + std::to_string(o.area_id)); return v; }
    v.has_rings = !o.rings.empty();
    if (k.kind == K_VALID) {
        if (!o.ret || !v.has_rings) { v.fail("assembler/valid-input-rejected/" + shape_class(k), stats_text(o)); return v; }
        judge_rings(L, k, o.rings, v);
        if (!v.ok) { v.detail += " | all rings: " + rings_text(o.rings); return v; }
        size_t no = 0;
        for (const auto& r : o.rings) no += r.outer;
        if (o.stats.outer_rings != no || o.stats.inner_rings != o.rings.size() - no) v.fail("assembler/stats-ring-counts-differ-from-area", stats_text(o));
        if (c.ids == 0) for (const auto& r : o.rings) for (size_t i = 0; i < r.pts.size(); ++i) if (r.ids[i] != r.pts[i] + 1) v.fail("area/node-id-not-the-input-node-at-that-location", ring_text(r));
        return v;
    }
    // not a valid arrangement: no area with rings may come out
    if (v.has_rings) { v.fail("assembler/invalid-input-accepted/" + std::string(kind_name(k.kind)), stats_text(o)); return v; }
    if (c.empty_areas && !(o.ret && o.areas == 1)) { v.fail("assembler/create_empty_areas-not-honoured/no-empty-area-for-invalid-input", stats_text(o)); return v; }
    if (!c.empty_areas && (o.ret || o.areas != 0)) { v.fail("assembler/create_empty_areas-not-honoured/area-created-though-disabled", stats_text(o)); return v; }
    if (c.reporter) {
        if ((k.kind == K_CROSS || k.kind == K_OVERLAP || k.kind == K_TJUNC) && o.rep.intersection == 0) v.fail("assembler/invalid-input-not-reported/" + std::string(kind_name(k.kind)), stats_text(o));
        if (k.kind == K_OPEN && o.rep.not_closed == 0) v.fail("assembler/invalid-input-not-reported/open", stats_text(o));
    }
    return v;
}

// role check (check_roles=true): the number of reported segments must be the number of ring segments whose member
// role is neither empty nor the kind of the ring the library put the segment in
static void judge_roles(const Case& c, const Cls& k, const LibOut& o, Verdict& v) {
    if (!v.ok || k.kind != K_VALID || c.way_mode) return;
    const Lattice& L = LAT[c.lat];
    if (!c.check_roles) {
        if (o.stats.wrong_role != 0 || o.rep.role_inner + o.rep.role_outer != 0) v.fail("assembler/role-check/reports-although-disabled", stats_text(o));
        return;
    }
    bool uniform = true;
    for (char r : c.roles) uniform = uniform && r == c.roles[0];
    if (k.has_dup && !uniform) return;   // which copy of a duplicated segment survives is not specified
    unsigned expect = 0, expect_outer = 0;
    std::vector<char> seen(L.nseg, 0);
    for (size_t i = 0; i < c.ways.size(); ++i)
        for (size_t j = 1; j < c.ways[i].size(); ++j) {
            if (c.ways[i][j] == c.ways[i][j - 1]) continue;
            const int s = L.sid[c.ways[i][j - 1]][c.ways[i][j]];
            if (seen[s] || v.seg_kind[s] == 0) continue;
            seen[s] = 1;
            const char r = c.roles[i];
            if (r == '-') continue;
            const bool wrong = v.seg_kind[s] == 1 ? r != 'o' : r != 'i';
            expect += wrong; expect_outer += wrong && v.seg_kind[s] == 1;
        }
    if (o.stats.wrong_role != expect || (c.reporter && (o.rep.role_outer != expect_outer || o.rep.role_inner != expect - expect_outer)))
        v.fail("assembler/role-check/wrong-number-of-role-problems", "expected " + std::to_string(expect) + " (should-be-outer " + std::to_string(expect_outer) + "), stats.wrong_role=" +
               std::to_string(o.stats.wrong_role) + " reported outer=" + std::to_string(o.rep.role_outer) + " inner=" + std::to_string(o.rep.role_inner) + " roles=" + c.roles + " | " + rings_text(o.rings));
}

// ================================================================================================
// evaluation of one case, with crash attribution through a shared record
struct Cur { char spec[4000]; };
static Cur* g_cur = nullptr;
static uint64_t* c_eval = nullptr;
static bool g_count_only = false;     // cases outside the property's coordinate domain: disagreements are counted, not reported

static Verdict eval_case(const Case& c, std::vector<RingOut>* rings_out = nullptr) {
    if (g_cur) write_spec(c, g_cur->spec);
    ++*c_eval;
    const Cls k = classify(LAT[c.lat], c.ways);
    LibOut o;
    run_lib(c, o);
    Verdict v = judge(c, k, o);
    judge_roles(c, k, o, v);
    if (!v.ok) {
        if (g_count_only || !IMG[c.img].in_domain) { ++C["outside_domain_disagreements"]; }
        else V.report(v.key, "image '" + std::string(IMG[c.img].name) + "' " + (c.way_mode ? "way" : "relation") + " ways=" + spec_of(c).substr(17) + " input " + kind_name(k.kind) + ": " + v.detail, spec_of(c));
    }
    if (rings_out) *rings_out = o.rings;
    return v;
}

// compare the canonical result of a variant with its reference; kind names the varied dimension
static void compare(const Case& ref, const std::string& ref_canon, const Case& var, const Verdict& vv, const char* dim, bool report) {
    if (!vv.ok || ref_canon.empty() || vv.canon == ref_canon) return;
    if (!report || !IMG[var.img].in_domain || !IMG[ref.img].in_domain) { ++C[(std::string("decomposition_differs_by_") + dim).c_str()]; return; }
    V.report(std::string("area/depends-on-") + dim, "reference " + spec_of(ref) + " -> " + ref_canon + " | variant " + spec_of(var) + " -> " + vv.canon,
             std::string("cmp:") + dim + "|" + spec_of(ref) + "|" + spec_of(var));
}

// ================================================================================================
// cuttings of a segment multiset into ways
static Ways cut_segments(const Lattice& L, const std::vector<int>& M) {
    Ways w;
    for (int s : M) w.push_back({L.sa[s], L.sb[s]});
    return w;
}
struct MG {   // multigraph on the lattice points
    int n; int cnt[MAXP][MAXP]; int deg[MAXP];
    MG(const Lattice& L, const std::vector<int>& M) : n(L.n) {
        memset(cnt, 0, sizeof cnt); memset(deg, 0, sizeof deg);
        for (int s : M) { ++cnt[L.sa[s]][L.sb[s]]; ++cnt[L.sb[s]][L.sa[s]]; ++deg[L.sa[s]]; ++deg[L.sb[s]]; }
    }
    int start() const { for (int v = 0; v < n; ++v) if (deg[v] & 1) return v; for (int v = 0; v < n; ++v) if (deg[v]) return v; return -1; }
    int next(int v) const { for (int u = 0; u < n; ++u) if (cnt[v][u]) return u; return -1; }
    void take(int v, int u) { --cnt[v][u]; --cnt[u][v]; --deg[v]; --deg[u]; }
};
static Ways cut_trails(const Lattice& L, const std::vector<int>& M) {   // maximal trails, greedy by lowest neighbour
    MG g(L, M); Ways ws;
    for (int st; (st = g.start()) >= 0;) {
        std::vector<int> path{st};
        for (int v = st, u; (u = g.next(v)) >= 0; v = u) { g.take(v, u); path.push_back(u); }
        ws.push_back(path);
    }
    return ws;
}
static Ways cut_cycles(const Lattice& L, const std::vector<int>& M) {   // peel simple cycles, left-over paths stay open ways
    MG g(L, M); Ways ws;
    for (int st; (st = g.start()) >= 0;) {
        std::vector<int> path{st};
        for (int u; (u = g.next(path.back())) >= 0;) {
            g.take(path.back(), u);
            auto it = std::find(path.begin(), path.end(), u);
            if (it != path.end()) { std::vector<int> cyc(it, path.end()); cyc.push_back(u); ws.push_back(cyc); path.erase(it + 1, path.end()); }
            else path.push_back(u);
        }
        if (path.size() >= 2) ws.push_back(path);
    }
    return ws;
}
static Ways cut_split(const Ways& in, size_t nseg) {   // re-cut every way into pieces of nseg segments
    Ways ws;
    for (const auto& w : in)
        for (size_t i = 0; i + 1 < w.size(); i += nseg) ws.emplace_back(w.begin() + static_cast<long>(i), w.begin() + static_cast<long>(std::min(w.size(), i + nseg + 1)));
    return ws;
}
static void add_cut(std::vector<Ways>& cuts, const Ways& w) { if (!w.empty() && std::find(cuts.begin(), cuts.end(), w) == cuts.end()) cuts.push_back(w); }

static std::vector<std::vector<int>> member_orders(size_t w, int level) {
    std::vector<int> id(w);
    for (size_t i = 0; i < w; ++i) id[i] = static_cast<int>(i);
    std::vector<std::vector<int>> r;
    std::vector<int> rev(id.rbegin(), id.rend());
    if (level == 0) { r.push_back(id); if (w > 1) r.push_back(rev); return r; }
    if (w <= 4) { std::vector<int> p = id; do r.push_back(p); while (std::next_permutation(p.begin(), p.end())); return r; }
    if (w <= 8) {
        for (const auto& base : {id, rev}) for (size_t k = 0; k < w; ++k) { std::vector<int> p(base.begin() + static_cast<long>(k), base.end()); p.insert(p.end(), base.begin(), base.begin() + static_cast<long>(k)); r.push_back(p); }
        return r;
    }
    r.push_back(id); r.push_back(rev);
    { std::vector<int> p(id.begin() + static_cast<long>(w / 2), id.end()); p.insert(p.end(), id.begin(), id.begin() + static_cast<long>(w / 2)); r.push_back(p); }
    { std::vector<int> p; for (size_t i = 0; i < w; i += 2) p.push_back(static_cast<int>(i)); for (size_t i = 1; i < w; i += 2) p.push_back(static_cast<int>(i)); r.push_back(p); }
    return r;
}
static std::vector<uint32_t> reversal_masks(size_t w, int level) {
    const uint32_t all = w >= 32 ? 0xffffffffu : (1u << w) - 1;
    if (level == 0) return {0u, all};
    std::vector<uint32_t> r;
    if (w <= 4) { for (uint32_t m = 0; m <= all; ++m) r.push_back(m); return r; }
    return {0u, all, 0x55555555u & all, 0xaaaaaaaau & all};
}
static Ways arrange(const Ways& cut, const std::vector<int>& order, uint32_t mask) {
    Ways w;
    for (size_t i = 0; i < order.size(); ++i) {
        std::vector<int> x = cut[static_cast<size_t>(order[i])];
        if (mask >> i & 1) std::reverse(x.begin(), x.end());
        w.push_back(x);
    }
    return w;
}

// ================================================================================================
// exploration of one segment multiset
static std::set<std::string> g_outcomes;
static void outcome(const std::string& s) { if (g_outcomes.insert(s).second) benum::setv("outcomes", s); }

static std::string mset_text(const Lattice& L, const std::vector<int>& M) {
    std::string s;
    for (int x : M) { if (!s.empty()) s += ' '; s += std::to_string(L.sa[x]) + "-" + std::to_string(L.sb[x]); }
    return s;
}

// level: 0 light (identity / reversed orders only), 1 full member-order x reversal product
static void explore_valid(int lat, const std::vector<int>& M, const Cls& k, int level, bool want_sample) {
    const Lattice& L = LAT[lat];
    std::vector<Ways> cuts;
    add_cut(cuts, cut_trails(L, M));
    Case base; base.lat = lat; base.ways = cuts[0]; base.roles.assign(base.ways.size(), '-');
    std::vector<RingOut> rings00;
    const Verdict v00 = eval_case(base, &rings00);
    if (!v00.ok) return;
    {
        size_t no = 0; for (const auto& r : rings00) no += r.outer;
        outcome("valid " + shape_class(k) + " -> outer=" + std::to_string(no) + " inner=" + std::to_string(rings00.size() - no));
        if (want_sample) benum::sample("lattice " + std::to_string(L.w) + "x" + std::to_string(L.h) + " segments {" + mset_text(L, M) + "} valid (" + shape_class(k) + ") -> " + rings_text(rings00));
    }
    add_cut(cuts, cut_segments(L, M));
    add_cut(cuts, cut_cycles(L, M));
    add_cut(cuts, cut_split(cuts[0], 2));
    if (level > 0) add_cut(cuts, cut_split(cuts[0], 3));
    { Ways fb; for (const auto& r : rings00) fb.push_back(r.pts); add_cut(cuts, fb); }   // the result's own rings as closed ways
    ++C["valid_arrangements"];
    C["cuttings_tried"] += cuts.size();

    std::string canon_img0;
    for (int img = 0; img < 3; ++img) {
        std::string canon_cut0;
        for (size_t ci = 0; ci < cuts.size(); ++ci) {
            const Ways& cut = cuts[ci];
            const size_t w = cut.size();
            Case b0 = base; b0.img = img; b0.ways = cut; b0.roles.assign(w, '-');
            const Verdict vb = (img == 0 && ci == 0) ? v00 : eval_case(b0);
            if (!vb.ok) return;
            if (ci == 0) {
                canon_cut0 = vb.canon;
                if (img == 0) canon_img0 = vb.canon; else { Case r0 = base; compare(r0, canon_img0, b0, vb, "affine-image", false); }
            } else { Case r0 = b0; r0.ways = cuts[0]; r0.roles.assign(cuts[0].size(), '-'); compare(r0, canon_cut0, b0, vb, "cutting-into-ways", true); }
            // member order x way direction
            const auto orders = member_orders(w, level);
            const auto masks = reversal_masks(w, level);
            for (const auto& ord : orders) {
                Case p0 = b0; p0.ways = arrange(cut, ord, 0);
                Verdict vp = vb;
                if (ord != orders[0]) { vp = eval_case(p0); if (!vp.ok) return; compare(b0, vb.canon, p0, vp, "member-order", true); }
                for (uint32_t m : masks) {
                    Case p1 = p0; Verdict vr = vp;
                    if (m != 0) { p1.ways = arrange(cut, ord, m); vr = eval_case(p1); if (!vr.ok) return; compare(p0, vp.canon, p1, vr, "way-direction", true); }
                    // role assignments with check_roles: full product for <= 3 ways (level 1), else on the first and the last variant only
                    if ((w > 3 || level == 0) && !((ord == orders.front() && m == masks.front()) || (ord == orders.back() && m == masks.back()))) continue;
                    for (int ra = 0; ra < 5; ++ra) {
                        Case pr = p1; pr.check_roles = true;
                        for (size_t i = 0; i < w; ++i) {
                            char correct = '-';   // kind of the ring holding the way's first real segment
                            for (size_t j = 1; j < pr.ways[i].size() && correct == '-'; ++j)
                                if (pr.ways[i][j] != pr.ways[i][j - 1]) { const int8_t sk = vr.seg_kind[static_cast<size_t>(L.sid[pr.ways[i][j - 1]][pr.ways[i][j]])]; correct = sk == 1 ? 'o' : sk == 2 ? 'i' : '-'; }
                            pr.roles[i] = ra == 0 ? '-' : ra == 1 ? 'o' : ra == 2 ? correct : ra == 3 ? (correct == 'o' ? 'i' : 'o') : (i % 2 ? 'x' : 'i');
                        }
                        if (k.has_dup && ra >= 2) { if (ra == 4) continue; pr.roles.assign(w, ra == 2 ? 'i' : 'x'); }   // copies of a segment are interchangeable: uniform roles only
                        const Verdict vq = eval_case(pr); if (!vq.ok) return;
                        compare(p1, vr.canon, pr, vq, "member-roles", true);
                    }
                }
            }
            // a single way also goes through Assembler(Way)
            if (w == 1) for (int rv = 0; rv < 2; ++rv) {
                Case wm = b0; wm.way_mode = true; wm.ways = arrange(cut, {0}, static_cast<uint32_t>(rv));
                const Verdict vw = eval_case(wm); if (!vw.ok) return;
                compare(b0, vb.canon, wm, vw, "way-versus-relation", false);
            }
            // configuration variants and duplicate nodes on the base arrangement of this cutting
            if (ci <= 1) {
                Case e0 = b0; e0.empty_areas = false; if (!eval_case(e0).ok) return;
                Case n0 = b0; n0.reporter = false; if (!eval_case(n0).ok) return;
                for (int ids = 1; ids <= 2; ++ids) {
                    Case d0 = b0; d0.ids = ids; const Verdict vd = eval_case(d0); if (!vd.ok) return;
                    compare(b0, vb.canon, d0, vd, "node-ids", false);
                }
                Case dd = b0;   // every node twice in a row (zero-length steps), fresh ids
                for (auto& x : dd.ways) { std::vector<int> y; for (int p : x) { y.push_back(p); y.push_back(p); } x = y; }
                dd.ids = 2;
                const Verdict vdd = eval_case(dd); if (!vdd.ok) return;
                compare(b0, vb.canon, dd, vdd, "node-ids", false);
            }
        }
    }
    // outside the property's +-2^29 domain but inside the valid location range: counted only
    g_count_only = true;
    for (size_t ci = 0; ci < cuts.size() && ci < 2; ++ci) { Case x = base; x.img = 3; x.ways = cuts[ci]; x.roles.assign(cuts[ci].size(), '-'); const Verdict vx = eval_case(x); ++C["outside_domain_cases"]; compare(base, canon_img0, x, vx, "affine-image", false); }
    g_count_only = false;
}

// level 0: two realisations; level 1: more images and cuttings
static void explore_invalid(int lat, const std::vector<int>& M, const Cls& k, int level, bool want_sample) {
    const Lattice& L = LAT[lat];
    const bool near_valid = k.kind != K_OPEN && k.kind != K_EMPTY && k.all_even;   // closed rings that cross / overlap / touch inside a segment
    Case a; a.lat = lat; a.ways = cut_segments(L, M); a.roles.assign(a.ways.size(), '-');
    std::vector<RingOut> rr;
    const Verdict va = eval_case(a, &rr);
    outcome(std::string("invalid ") + kind_name(k.kind) + (near_valid ? " (all rings closed)" : "") + " -> " + (va.has_rings ? "AREA WITH RINGS" : "no rings"));
    if (want_sample) benum::sample("lattice " + std::to_string(L.w) + "x" + std::to_string(L.h) + " segments {" + mset_text(L, M) + "} " + kind_name(k.kind) + " -> " + rings_text(rr));
    if (!va.ok) return;
    const Ways trails = cut_trails(L, M);
    Case b = a; b.img = 1; b.ways = trails; b.roles.assign(trails.size(), '-'); b.empty_areas = false;
    if (!eval_case(b).ok) return;
    if (trails.size() == 1) { Case w = b; w.img = 2; w.way_mode = true; w.empty_areas = true; if (!eval_case(w).ok) return; }
    if (level == 0 && !near_valid) return;
    std::vector<Ways> cuts;
    add_cut(cuts, trails); add_cut(cuts, a.ways); add_cut(cuts, cut_cycles(L, M)); add_cut(cuts, cut_split(trails, 2));
    for (int img = 0; img < 3; ++img)
        for (const auto& cut : cuts) {
            const auto orders = member_orders(cut.size(), 0);
            const auto masks = reversal_masks(cut.size(), 0);
            for (size_t i = 0; i < orders.size(); ++i) {
                Case x = a; x.img = img; x.ways = arrange(cut, orders[i], masks[i % masks.size()]); x.roles.assign(cut.size(), i ? 'o' : '-');
                x.empty_areas = (img + i) % 2 == 0; x.reporter = !(img == 2 && i == 1);
                if (!eval_case(x).ok) return;
                if (cut.size() == 1) { x.way_mode = true; if (!eval_case(x).ok) return; }
            }
        }
    g_count_only = true;
    { Case x = a; x.img = 3; eval_case(x); ++C["outside_domain_cases"]; }
    g_count_only = false;
}

static int g_max_touch = 1000;   // part D: inputs with more touching points are outside the explored bound (assembly time doubles per point)
static bool g_invalid_samples = true;
static void explore(int lat, const std::vector<int>& M, int level_valid, int level_invalid, uint64_t rank, uint64_t seed) {
    if (M.empty()) return;   // no ways at all is not an input of the property
    const Lattice& L = LAT[lat];
    const Cls k = classify(L, cut_segments(L, M));
    if (k.touch > g_max_touch) { ++C["skipped_more_touching_points_than_bound"]; return; }
    ++C["segment_multisets"];
    if (k.nontrivial) ++C["distinct_nontrivial"];
    ++C[(std::string("inputs_") + kind_name(k.kind)).c_str()];
    // SAMPLE lines: a few non-trivial cases per process, picked by a hash of the rank (the seed only moves the pick)
    static int shown[2] = {0, 0};
    int& n = shown[k.kind == K_VALID];
    const bool want_sample = k.nontrivial && n < 2 && (k.kind == K_VALID || g_invalid_samples) && ((rank * 0x9E3779B97F4A7C15ull + seed) >> 20) % 257 == 0 && ++n;
    if (k.kind == K_VALID) explore_valid(lat, M, k, level_valid, want_sample);
    else explore_invalid(lat, M, k, level_invalid, want_sample);
}

// ================================================================================================
// enumerators
static uint64_t binom(int n, int k) { if (k < 0 || k > n) return 0; uint64_t r = 1; for (int i = 1; i <= k; ++i) r = r * static_cast<uint64_t>(n - k + i) / static_cast<uint64_t>(i); return r; }
static void unrank_comb(int n, int k, uint64_t r, std::vector<int>& c) {   // lexicographic
    c.resize(static_cast<size_t>(k));
    int x = 0;
    for (int i = 0; i < k; ++i) {
        for (;; ++x) { const uint64_t b = binom(n - x - 1, k - i - 1); if (r < b) break; r -= b; }
        c[static_cast<size_t>(i)] = x++;
    }
}
static bool next_comb(int n, std::vector<int>& c) {
    const int k = static_cast<int>(c.size());
    int i = k - 1;
    while (i >= 0 && c[static_cast<size_t>(i)] == n - k + i) --i;
    if (i < 0) return false;
    ++c[static_cast<size_t>(i)];
    for (int j = i + 1; j < k; ++j) c[static_cast<size_t>(j)] = c[static_cast<size_t>(j - 1)] + 1;
    return true;
}

static void on_death(const char* part, uint64_t rank, const std::string& what, const std::string& err) {
    const std::string spec = g_cur->spec;
    Case c;
    std::string kind = "?";
    if (parse_spec(spec, c)) kind = kind_name(classify(LAT[c.lat], c.ways).kind);
    V.report("assembler/crash/" + benum::death_class(what, err) + "/input-" + kind, std::string("part ") + part + " block " + std::to_string(rank) + " died (" + what + ") in case " + spec, "iso:" + spec);
}

static void part_A(const Args& a, int kmin, int kmax, int level_valid, int level_invalid) {
    const Lattice& L = LAT[0];
    const uint64_t BS = 1024;
    for (int k = kmin; k <= kmax; ++k) {
        const uint64_t total = binom(L.nseg, k), blocks = (total + BS - 1) / BS;
        const bool done = benum::run_isolated(a, 0, blocks, [&](uint64_t blk) {
            std::vector<int> c;
            unrank_comb(L.nseg, k, blk * BS, c);
            for (uint64_t i = 0; i < BS && blk * BS + i < total; ++i) {
                explore(0, c, level_valid, level_invalid, blk * BS + i, a.seed);
                if (!next_comb(L.nseg, c)) break;
            }
        }, [&](uint64_t r, const std::string& what, const std::string& err) { on_death("A", r, what, err); });
        benum::bound("A: every set of " + std::to_string(k) + " of the 36 segments between points of the 3x3 lattice (" + std::to_string(total) + " sets)", done);
        if (!done) break;
    }
}

static void part_B(const Args& a, int level_valid, int level_invalid) {
    const Lattice& L = LAT[1];
    // 8-neighbour edges, spanning tree by BFS, one fundamental cycle per non-tree edge
    std::vector<int> edges;
    for (int s = 0; s < L.nseg; ++s) { const Pt p = L.p[L.sa[s]], q = L.p[L.sb[s]]; if (std::abs(p.x - q.x) <= 1 && std::abs(p.y - q.y) <= 1) edges.push_back(s); }
    std::vector<int> parent(static_cast<size_t>(L.n), -1), pedge(static_cast<size_t>(L.n), -1), order{0};
    std::vector<char> in_tree(edges.size(), 0), seen(static_cast<size_t>(L.n), 0);
    seen[0] = 1;
    for (size_t h = 0; h < order.size(); ++h)
        for (size_t e = 0; e < edges.size(); ++e) {
            const int u = L.sa[edges[e]], v = L.sb[edges[e]], x = order[h];
            const int y = u == x ? v : v == x ? u : -1;
            if (y >= 0 && !seen[static_cast<size_t>(y)]) { seen[static_cast<size_t>(y)] = 1; parent[static_cast<size_t>(y)] = x; pedge[static_cast<size_t>(y)] = static_cast<int>(e); in_tree[e] = 1; order.push_back(y); }
        }
    std::vector<uint32_t> basis;
    for (size_t e = 0; e < edges.size(); ++e) {
        if (in_tree[e]) continue;
        uint32_t m = 1u << e;
        for (int end : {L.sa[edges[e]], L.sb[edges[e]]}) for (int v = end; parent[static_cast<size_t>(v)] >= 0; v = parent[static_cast<size_t>(v)]) m ^= 1u << pedge[static_cast<size_t>(v)];
        basis.push_back(m);
    }
    if (edges.size() != 29 || basis.size() != 18) { fprintf(stderr, "h10: lattice graph not as expected\n"); exit(3); }
    const uint64_t total = 1ull << basis.size(), BS = 64;
    const bool done = benum::run_isolated(a, 0, total / BS, [&](uint64_t blk) {
        for (uint64_t r = blk * BS; r < (blk + 1) * BS; ++r) {
            uint32_t m = 0;
            for (size_t i = 0; i < basis.size(); ++i) if (r >> i & 1) m ^= basis[i];
            std::vector<int> M;
            for (size_t e = 0; e < edges.size(); ++e) if (m >> e & 1) M.push_back(edges[e]);
            explore(1, M, level_valid, level_invalid, r, a.seed);
        }
    }, [&](uint64_t r, const std::string& what, const std::string& err) { on_death("B", r, what, err); });
    benum::bound("B: every even-degree subgraph of the 4x3 8-neighbour lattice (2^18 graphs over 29 edges)", done);
}

static void part_C(const Args& a, int maxtotal, int level_valid, int level_invalid) {
    const Lattice& L = LAT[0];
    std::vector<std::vector<uint8_t>> all;   // multisets as sorted segment lists
    std::vector<uint8_t> cur;
    std::function<void(int, int, bool)> rec = [&](int seg, int left, bool dup) {
        if (seg == L.nseg) { if (dup) all.push_back(cur); return; }
        for (int m = 0; m <= 3 && m <= left; ++m) {
            for (int i = 0; i < m; ++i) cur.push_back(static_cast<uint8_t>(seg));
            rec(seg + 1, left - m, dup || m >= 2);
            for (int i = 0; i < m; ++i) cur.pop_back();
        }
    };
    rec(0, maxtotal, false);
    std::stable_sort(all.begin(), all.end(), [](const std::vector<uint8_t>& x, const std::vector<uint8_t>& y) { return x.size() < y.size(); });
    const uint64_t BS = 256, blocks = (all.size() + BS - 1) / BS;
    const bool done = benum::run_isolated(a, 0, blocks, [&](uint64_t blk) {
        for (uint64_t r = blk * BS; r < (blk + 1) * BS && r < all.size(); ++r) {
            std::vector<int> M(all[r].begin(), all[r].end());
            explore(0, M, level_valid, level_invalid, r, a.seed);
        }
    }, [&](uint64_t r, const std::string& what, const std::string& err) { on_death("C", r, what, err); });
    benum::bound("C: every multiset over the 36 segments of the 3x3 lattice with multiplicities 0..3, at least one >= 2, total <= " + std::to_string(maxtotal) + " (" + std::to_string(all.size()) + " multisets)", done);
}


// D: nested and touching rings. A catalogue of closed rings on the 9x9 lattice (squares inside each other, diamonds touching
// them in lattice points, rings sharing edges, rings crossing in shared nodes); every subset of the catalogue is one input:
// the multiset union of the rings' unit segments (shared edges occur twice and cancel, as the property demands).
using P2 = std::pair<int, int>;
static std::vector<P2> sq(int x0, int y0, int x1, int y1) { return std::vector<P2>{{x0, y0}, {x1, y0}, {x1, y1}, {x0, y1}}; }
static std::vector<P2> dia(int cx, int cy, int r) { return std::vector<P2>{{cx, cy - r}, {cx + r, cy}, {cx, cy + r}, {cx - r, cy}}; }

// every subset of the first nrings rings of a catalogue on lattice `lat` is one input
static void run_catalogue(const Args& a, const char* fam, int lat, const std::vector<std::vector<P2>>& corners, int nrings, int max_touch, int level_valid, int level_invalid, const std::string& what) {
    g_max_touch = max_touch;
    const Lattice& L = LAT[lat];
    nrings = std::min<int>(nrings, static_cast<int>(corners.size()));
    std::vector<std::vector<int>> ring_segs;   // unit steps along every edge (axis-parallel or diagonal)
    for (const auto& c : corners) {
        std::vector<int> segs;
        for (size_t i = 0; i < c.size(); ++i) {
            P2 p = c[i]; const P2 q = c[(i + 1) % c.size()];
            const int dx = (q.first > p.first) - (q.first < p.first), dy = (q.second > p.second) - (q.second < p.second);
            while (p != q) { const P2 n{p.first + dx, p.second + dy}; segs.push_back(L.sid[p.second * L.w + p.first][n.second * L.w + n.first]); p = n; }
        }
        ring_segs.push_back(segs);
    }
    const uint64_t total = 1ull << nrings, BS = 4;
    benum::Isolation iso; iso.case_timeout_s = 120;
    const bool done = benum::run_isolated(a, 0, total / BS, [&](uint64_t blk) {
        for (uint64_t r = blk * BS; r < (blk + 1) * BS; ++r) {
            std::vector<int> M;
            for (int i = 0; i < nrings; ++i) if (r >> i & 1) M.insert(M.end(), ring_segs[static_cast<size_t>(i)].begin(), ring_segs[static_cast<size_t>(i)].end());
            std::sort(M.begin(), M.end());
            explore(lat, M, level_valid, level_invalid, r, a.seed);
        }
    }, [&](uint64_t r, const std::string& what2, const std::string& err) { on_death(fam, r, what2, err); }, iso);
    benum::bound(std::string(fam) + ": every subset of the first " + std::to_string(nrings) + " rings of " + what + " (2^" + std::to_string(nrings) + " inputs) with <= " + std::to_string(max_touch) + " touching points", done);
}

static void part_D(const Args& a, int nrings, int max_touch, int level_valid, int level_invalid) {
    const std::vector<std::vector<P2>> corners = {
        sq(0, 0, 8, 8), sq(1, 1, 7, 7), sq(2, 2, 6, 6), sq(3, 3, 5, 5),        // strictly nested: outer, hole, island, hole in the island
        sq(3, 5, 5, 7), sq(1, 1, 7, 4), sq(2, 2, 4, 3),                        // hole above a hole that holds an island (ray passes a foreign outer ring twice)
        dia(4, 4, 1), dia(4, 4, 2), sq(0, 0, 4, 4),                            // touching in lattice points, edge sharing
        sq(4, 4, 8, 8), dia(4, 4, 4), sq(1, 1, 2, 2), sq(3, 1, 5, 2), {{0, 0}, {2, 0}, {0, 2}}, sq(0, 5, 2, 7)};
    run_catalogue(a, "D", 2, corners, nrings, max_touch, level_valid, level_invalid, "the nested/touching ring catalogue on the 9x9 lattice");
}

// E: deep nesting. A tower of five strictly nested squares (outer, hole, island, hole, island) with rings above it, beside it and
// inside it, so that the vertical line below the start of an inner ring crosses several nested outer rings that do NOT enclose it
// (the stack of candidate outer rings in find_enclosing_ring() holds nested pairs "X Y Y X" that must cancel from the inside out).
static void part_E(const Args& a, int nrings, int max_touch, int level_valid, int level_invalid) {
    const std::vector<std::vector<P2>> corners = {
        sq(0, 0, 10, 12), sq(1, 1, 9, 9), sq(2, 2, 8, 8), sq(3, 3, 7, 7), sq(4, 4, 6, 6),   // C > H > Q > H2 > P
        sq(4, 10, 6, 11), sq(5, 10, 8, 11), sq(2, 10, 3, 11),                              // holes of C above the tower: over P's left edge, over P, over Q only
        dia(5, 5, 1),                                                                      // touches P from the inside in four nodes
        sq(1, 10, 9, 12),                                                                  // shares part of C's top edge, encloses the rings above the tower
        sq(7, 1, 9, 2), sq(0, 0, 1, 1)};                                                   // edge sharing with H / corner sharing with C and H
    run_catalogue(a, "E", 3, corners, nrings, max_touch, level_valid, level_invalid, "the deep-nesting tower catalogue on the 11x13 lattice");
}

// ================================================================================================
static void replay(const Args& a, const std::string& spec) {
    if (spec.compare(0, 4, "iso:") == 0) {   // a case that killed the process: run it in a child
        Case c;
        if (!parse_spec(spec.substr(4), c)) { fprintf(stderr, "bad spec\n"); exit(2); }
        benum::run_isolated(a, 0, 1, [&](uint64_t) { eval_case(c); },
                            [&](uint64_t r, const std::string& what, const std::string& err) { on_death("replay", r, what, err); });
        return;
    }
    if (spec.compare(0, 4, "cmp:") == 0) {
        const size_t p1 = spec.find('|'), p2 = spec.find('|', p1 + 1);
        const std::string dim = spec.substr(4, p1 - 4);
        Case r, v;
        if (p2 == std::string::npos || !parse_spec(spec.substr(p1 + 1, p2 - p1 - 1), r) || !parse_spec(spec.substr(p2 + 1), v)) { fprintf(stderr, "bad spec\n"); exit(2); }
        const Verdict vr = eval_case(r), vv = eval_case(v);
        if (vr.ok) compare(r, vr.canon, v, vv, dim.c_str(), true);
        return;
    }
    Case c;
    if (!parse_spec(spec, c)) { fprintf(stderr, "bad spec\n"); exit(2); }
    std::vector<RingOut> rings;
    const Verdict v = eval_case(c, &rings);
    benum::note("replayed " + spec + ": input " + kind_name(classify(LAT[c.lat], c.ways).kind) + ", " + rings_text(rings) + (v.ok ? " - accepted by the oracle" : ""));
}

int main(int argc, char** argv) {
    Args a = benum::parse_args(argc, argv);
    LAT[0].init(3, 3, true); LAT[1].init(4, 3, true); LAT[2].init(9, 9, false); LAT[3].init(11, 13, false);
    g_cur = static_cast<Cur*>(mmap(nullptr, sizeof(Cur), PROT_READ | PROT_WRITE, MAP_SHARED | MAP_ANONYMOUS, -1, 0));
    g_cur->spec[0] = 0;
    c_eval = &C["evaluations"];
    C["distinct_nontrivial"] += 0;
    if (a.replay) { replay(a, a.replay_spec); return 0; }
    g_invalid_samples = a.shard % 8 == 0;
    std::map<std::string, std::string> opt;
    for (size_t i = 0; i + 1 < a.rest.size(); i += 2) opt[a.rest[i]] = a.rest[i + 1];
    auto num = [&](const char* k, int d) { return opt.count(k) ? atoi(opt[k].c_str()) : d; };
    const std::string part = opt["--part"];
    const int lv = num("--level-valid", 1), li = num("--level-invalid", 0);
    if (part == "A") part_A(a, std::max(1, num("--kmin", 1)), num("--kmax", 6), lv, li);
    else if (part == "B") part_B(a, lv, li);
    else if (part == "C") part_C(a, num("--total", 5), lv, li);
    else if (part == "D") part_D(a, num("--rings", 10), num("--maxtouch", 8), lv, li);
    else if (part == "E") part_E(a, num("--rings", 10), num("--maxtouch", 8), lv, li);
    else { fprintf(stderr, "unknown part\n"); return 2; }
    C.emit();
    return 0;
}
