"""C10 - assembled areas are valid multipolygons that cover exactly the input's region (DESIGN.md section 5, C10)."""
LEVEL = "exploration"
RULE = ("exhaustive enumeration of segment arrangements, each distinct by construction (rank <-> input bijection per family): "
        "(A) every set of 1..6|8 of the 36 segments between points of a 3x3 lattice (long segments through lattice points and "
        "knight-type segments crossing off-lattice included); (B) every even-degree subgraph of the 4x3 8-neighbour lattice (2^18); "
        "(C) every multiset over the 36 segments with multiplicities 0..3, one at least doubled, total <= 5|6; (D) every subset of a "
        "catalogue of 10|14 nested / touching / edge-sharing / node-crossing rings on a 9x9 lattice with <= 8|10 touching points; (E) every "
        "subset of a 10|12-ring catalogue around a tower of five strictly nested squares on an 11x13 lattice (nesting depth 5, holes "
        "above nested islands). "
        "Every input is realised as OSM ways and pushed through the real osmium::area::Assembler: invalid inputs as one way per "
        "segment, as maximal trails (also through Assembler(Way) when one way) and, when all rings are closed, in every cutting x 3 "
        "images; valid inputs in up to 6 cuttings (maximal trails, one way per segment, peeled simple cycles, pieces of 2 and 3 "
        "segments, the result's own rings) x member orders (all permutations for <= 4 ways, rotations of both directions for <= 8, "
        "4 fixed orders beyond; light level: identity + reversed) x way reversals (all masks for <= 4 ways, none/all/alternating "
        "beyond) x role assignments {empty, all outer, correct, swapped, inner/unknown} with check_roles x 3 affine images inside "
        "+-2^29 (unit, x1000003/x999983 with negative offset, the +2^29/-2^29 corner) x {create_empty_areas off, no reporter, fresh "
        "node ids per reference, every node doubled}; a fourth image at +180/-90 is outside the property's domain and only counted. "
        "Oracle: exact integer geometry in the harness - even-odd reduction of the multiset, pairwise crossing / overlap / "
        "T-junction predicate, degree parity; for valid inputs ring closure, >= 4 points, ring segments == input segments mod 2, "
        "signed-area orientation (outer counter-clockwise, inner clockwise, as the code fixes it), every inner ring inside its "
        "outer ring and attached to the innermost one, and cover count == even-odd parity at two sample points per segment "
        "(every face); canonical ring sets compared across cuttings, member orders, way directions and roles. evaluations = "
        "assembler calls judged; distinct non-trivial = inputs whose even-odd segment set is not empty and contains a cycle or a "
        "crossing / overlapping / T-touching pair.")
DEADLINE = {"quick": 200, "thorough": 1500}


def build(ctx):
    fast, dbg = ctx.build_many([
        dict(name="h10", sources=["h10.cpp"], opt="-O2"),
        dict(name="h10dbg", sources=["h10.cpp"], opt="-O2", ndebug=False),
    ])
    return {"h10": fast, "h10dbg": dbg}


def run(ctx):
    exes = build(ctx)
    if getattr(ctx, "build_only", False):
        return
    fast, dbg = exes["h10"], exes["h10dbg"]
    thorough = ctx.tier == "thorough"
    lv = "1"
    plan = [
        (fast, ["--part", "A", "--kmin", "1", "--kmax", "6", "--level-valid", "1", "--level-invalid", "1" if thorough else "0"]),
        (fast, ["--part", "C", "--total", "6" if thorough else "5", "--level-valid", "1", "--level-invalid", "1" if thorough else "0"]),
        (fast, ["--part", "D", "--rings", "14" if thorough else "10", "--maxtouch", "10" if thorough else "8",
                "--level-valid", "1" if thorough else "0", "--level-invalid", "1" if thorough else "0"]),
        (fast, ["--part", "E", "--rings", "12" if thorough else "10", "--maxtouch", "10" if thorough else "8",
                "--level-valid", "1" if thorough else "0", "--level-invalid", "1" if thorough else "0"]),
        (fast, ["--part", "B", "--level-valid", "1" if thorough else "0", "--level-invalid", "1" if thorough else "0"]),
        # the library's own assertions enabled (debug builds): same oracle, an assertion abort is attributed to its case
        (dbg, ["--part", "A", "--kmin", "1", "--kmax", "6" if thorough else "5", "--level-valid", "0", "--level-invalid", "0"]),
        (dbg, ["--part", "D", "--rings", "12" if thorough else "8", "--maxtouch", "10" if thorough else "8", "--level-valid", "0", "--level-invalid", "0"]),
    ]
    if thorough:
        plan.append((dbg, ["--part", "B", "--level-valid", "0", "--level-invalid", "0"]))
        plan.append((fast, ["--part", "A", "--kmin", "7", "--kmax", "7", "--level-valid", lv, "--level-invalid", "0"]))
        plan.append((fast, ["--part", "A", "--kmin", "8", "--kmax", "8", "--level-valid", lv, "--level-invalid", "0"]))
    import os
    import time
    for exe, args in plan:
        t = time.time()
        ctx.run_harness(exe, args, shards=16)
        if os.environ.get("C10_TIMING"):
            print(os.path.basename(exe)[:10], " ".join(args), "%.1fs" % (time.time() - t), ctx.cov.get("evaluations"))
    ctx.assume("the property's domain is coordinates within +-2^29: the image at +180/-90 is run but only counted")
    ctx.assume("decomposition of a valid region into rings may differ between affine images, node-id assignments and way/relation "
               "entry points (not in the statement): counted, not reported; across cuttings, member orders, way directions and roles "
               "it must be identical")
    ctx.assume("a ring passing through one point twice is not excluded by the statement: counted, judged by even-odd containment")
    ctx.assume("inputs needing the assembler's hard limits (more than 100 touching points, join recursion deeper than 20) and, in family D, "
               "more touching points than the stated bound (assembly time doubles per touching point beyond ~12) are outside the explored space")
