"""C06 - the parse result is independent of how the input byte stream is cut into pieces (DESIGN.md section 5, C06)."""
import hashlib
import os
import shutil
import subprocess
import sys

LEVEL = "exploration"
RULE = ("inputs: 46 generated seed files (OPL, XML, o5m/o5c, PBF; written by spec-derived encoders, not by libosmium) and every "
        "proper prefix (>= 2 bytes) of two seeds per format; segmentations of an n-byte input as sorted cut offsets, enumerated "
        "exhaustively per family: every single cut (n-1), every uniform piece size of {1,2,3,4,5,7,8,11,13,16,23,32,47,64,97,128,"
        "191,256,383,512,767,1024} below n, one-byte pieces from p-3 to p+3 for every p, every pair of cuts (C(n-1,2)); a "
        "segmentation that falls into two families is run once, so every (path, input, segmentation) is distinct. Delivery paths: "
        "'direct' = the format's real Parser run synchronously on a pre-filled input queue holding exactly these pieces; 'reader' = a "
        "full Reader fed by a chunking Decompressor registered in CompressionFactory; 'pieces'/'shortread' = real plain/gzip/bzip2 "
        "files read with Decompressor::input_buffer_size in {1,2,3,5,7,64} (hook H5), plain/PBF files whose read(2) returns short "
        "at every offset, and plain/PBF files whose every read(2) returns at most k bytes (k in {1,2,3,5,7,64,700,1500,2048,4095}). Oracle: header text + canonical object dump + 'eof' or exception type and message equal to the result for "
        "the same bytes in one piece on the same path (and the paths agree on the unsplit input). Non-trivial = the parser really got "
        ">= 2 pieces and at least one cut lies strictly inside a line / tag / data set / blob frame (structure computed by the "
        "harness's own walkers); for the file paths: the input is longer than the piece size / a read was actually shortened.")
DEADLINE = {"quick": 170, "thorough": 1150}

HERE = os.path.dirname(os.path.abspath(__file__))
VERIF = os.path.dirname(os.path.dirname(HERE))
KS = [1, 2, 3, 5, 7, 64]


def _data_dir():
    """Generate the seeds once per version of the generator (atomic: build elsewhere, then rename)."""
    h = hashlib.sha1()
    for p in (os.path.join(HERE, "gen.py"), os.path.join(VERIF, "engine", "spec", "pbf.py"), os.path.join(VERIF, "engine", "spec", "o5m.py")):
        with open(p, "rb") as fh:
            h.update(fh.read())
    root = os.path.join(VERIF, "build", "C06-data")
    d = os.path.join(root, h.hexdigest()[:12])
    if not os.path.exists(os.path.join(d, "LIST")):
        os.makedirs(root, exist_ok=True)
        tmp = d + ".tmp%d" % os.getpid()
        r = subprocess.run([sys.executable, os.path.join(HERE, "gen.py"), tmp], stdout=subprocess.PIPE, stderr=subprocess.STDOUT, text=True)
        if r.returncode != 0:
            raise RuntimeError("C06 seed generator failed:\n" + r.stdout)
        try:
            os.rename(tmp, d)
        except OSError:
            shutil.rmtree(tmp, ignore_errors=True)      # somebody else was faster
        for old in os.listdir(root):                        # keep the directory tidy
            p = os.path.join(root, old)
            if old != os.path.basename(d) and ".tmp" not in old and os.path.isdir(p):
                shutil.rmtree(p, ignore_errors=True)
    return d


def build(ctx):
    dflag = '-DC06_DATA_DIR="%s"' % _data_dir()
    specs = [dict(name="h06", sources=["h06.cpp"], flags=[dflag]),
             dict(name="h06fd", sources=["h06fd.cpp"], flags=[dflag])]
    for k in KS:
        specs.append(dict(name="h06fd%d" % k, sources=["h06fd.cpp"], flags=[dflag, "-DOSMIUM_VERIF_INPUT_BUFFER_SIZE=%d" % k]))
    exes = ctx.build_many(specs)
    return {s["name"]: e for s, e in zip(specs, exes)}


def run(ctx):
    exes = build(ctx)
    if getattr(ctx, "build_only", False):
        return
    import time

    def part(exe, name, *more):
        t = time.time()
        ctx.run_harness(exes[exe], ["--part", name] + list(more), shards=16)
        ctx.notes.append("%s --part %s %s: %.1fs" % (exe, name, " ".join(more), time.time() - t))
    # smallest first
    part("h06", "unsplit")
    for k in KS:
        part("h06fd%d" % k, "pieces")
    part("h06fd", "shortread", "--scope", "subset")
    part("h06fd", "slowfd")
    part("h06", "split")
    if ctx.tier == "thorough":
        part("h06fd", "shortread", "--scope", "rest")
    ctx.assume("a Decompressor never returns an empty piece before the end of the data (an empty string is the end marker of the "
               "Reader's input queue), so only segmentations into non-empty pieces are enumerated")
    ctx.assume("PBF: when a file ends inside a blob, the parser's own fd reading and its input-queue reading word the error differently "
               "('unexpected EOF' / 'truncated data (EOF encountered)'); across these two code paths only header, objects and "
               "eof-or-error are compared; within one path the full exception text is compared")
