// C06 - the parse result is independent of how the input byte stream is cut into pieces.
//
// Inputs: the generated seeds (gen.py; valid files of the four formats, one OPL error seed) and every proper
// prefix of the seeds flagged 't'. Segmentations (sorted cut offsets) per input of n bytes:
//   single   every single cut position                       n-1
//   uniform  every chunk size of UNIFORM_SIZES below n
//   around   1-byte chunks from p-3 to p+3, rest whole, every p
//   pairs    every pair of cut positions                     C(n-1,2)
// (a segmentation that belongs to two families is run once). Two delivery paths:
//   direct   the format's real Parser object (ParserFactory) run synchronously on a pre-filled input queue that
//            holds exactly the chosen chunks + the end marker - this is where every parser gets its bytes from
//            (Parser::get_input()/input_done()); PBF blobs are decoded in the calling thread
//   reader   a complete osmium::io::Reader on an in-memory File "<fmt>.gz" with a chunking Decompressor
//            registered for file_compression::gzip in CompressionFactory (this TU does not include the real
//            gzip decompressor; the repo's own mock-decompressor test uses the same seam): read thread,
//            bounded input queue, parser thread, pool
// Oracle: header text + canonical object dump + "eof" or the exception's type and message must be identical to
// the result of the same path on the same bytes in one piece. Also: both paths agree on the unsplit input, and
// a PBF file read through the fd path (the parser reads the file itself) gives the same header/objects/outcome
// as the queue path.
#include "c06.hpp"

#include <sys/stat.h>

#include <cmath>
#include <functional>

using namespace c06;
using benum::Args;

static benum::Counters C;
static benum::Violations V;
static std::vector<Seed> g_seeds;
static std::map<std::pair<int, uint32_t>, Structure> g_struct;      // per input, lazily
static std::set<std::string> g_outcomes_seen;

enum Path { DIRECT = 0, READER = 1 };
static const char* const PATH_NAME[] = {"direct", "reader"};
enum Family { SINGLE = 0, UNIFORM, AROUND, PAIRS };
static const char* const FAMILY_NAME[] = {"single", "uniform", "around", "pairs"};

// ------------------------------------------------------------------------------------------------
// the chunking decompressor of the reader path (one Reader at a time: the plan is global)
struct Plan { const char* data = nullptr; size_t size = 0; const Cuts* cuts = nullptr; size_t reads = 0; } g_plan;

class ChunkingDecompressor final : public osmium::io::Decompressor {
    size_t m_next = 0, m_pos = 0;      // next cut index, current offset
public:
    std::string read() override {
        ++g_plan.reads;
        if (m_pos >= g_plan.size) return {};
        size_t end = m_next < g_plan.cuts->size() ? (*g_plan.cuts)[m_next++] : g_plan.size;
        std::string r(g_plan.data + m_pos, end - m_pos);
        m_pos = end;
        set_offset(m_pos);
        return r;
    }
    void close() override {}
};

static osmium::thread::Pool& pool() {     // created in the process that uses it (after fork)
    static osmium::thread::Pool* p = new osmium::thread::Pool{2, 0};
    return *p;
}

static const std::string& bytes_of(const FileRef& f, std::string& tmp) {
    const Seed& s = g_seeds[f.seed];
    if (f.len == s.data.size()) return s.data;
    tmp.assign(s.data, 0, f.len);
    return tmp;
}

static Result run_reader(const Seed& s, const char* data, size_t n, const Cuts& cuts) {
    osmium::detail::g_env.clear();
    g_plan.data = data; g_plan.size = n; g_plan.cuts = &cuts; g_plan.reads = 0;
    return read_all(osmium::io::File{data, n, s.ext + ".gz"}, pool());
}

static Result run_direct(const Seed& s, const char* data, size_t n, const Cuts& cuts) {
    using namespace osmium::io;
    using namespace osmium::io::detail;
    osmium::detail::g_env.clear();
    osmium::detail::g_env["OSMIUM_USE_POOL_THREADS_FOR_PBF_PARSING"] = "no";
    Result r;
    future_string_queue_type in{0, "raw_input"};
    future_buffer_queue_type out{0, "parser_results"};
    size_t pos = 0;
    for (size_t i = 0; i <= cuts.size(); ++i) {
        size_t end = i < cuts.size() ? cuts[i] : n;
        if (end > pos) add_to_queue(in, std::string(data + pos, end - pos));
        pos = end;
    }
    add_end_of_data_to_queue(in);
    std::promise<Header> hp;
    std::future<Header> hf = hp.get_future();
    std::atomic<std::size_t> offset{0};
    parser_arguments args = {pool(), -1, in, out, hp, &offset, osmium::osm_entity_bits::all, read_meta::yes, buffers_type::any, false};
    const auto creator = ParserFactory::instance().get_creator_function(File{"", s.ext});
    creator(args)->parse();      // catches everything itself: exceptions travel through the promise and the queue
    try { r.header = canon(hf.get()); } catch (...) { r.header = current_exception_text(); }
    while (true) {
        std::future<osmium::memory::Buffer> f;
        if (!out.try_pop(f)) { r.end = "output queue ended without end marker"; break; }
        try {
            osmium::memory::Buffer b = f.get();
            if (!b) { r.end = "eof"; break; }
            while (b.has_nested_buffers()) { std::unique_ptr<osmium::memory::Buffer> nb{b.get_last_nested()}; collect(*nb, r); }
            collect(b, r);
        } catch (...) { r.end = current_exception_text(); break; }
    }
    return r;
}

static Result run(Path p, const FileRef& f, const Cuts& cuts) {
    std::string tmp;
    const std::string& d = bytes_of(f, tmp);
    return p == DIRECT ? run_direct(g_seeds[f.seed], d.data(), d.size(), cuts) : run_reader(g_seeds[f.seed], d.data(), d.size(), cuts);
}

static const Structure& structure(const FileRef& f) {
    auto key = std::make_pair(f.seed, f.len);
    auto it = g_struct.find(key);
    if (it == g_struct.end()) { std::string tmp; it = g_struct.emplace(key, walk(g_seeds[f.seed].fmt, bytes_of(f, tmp))).first; }
    return it->second;
}

static const Result& baseline(Path p, const FileRef& f) {
    static std::map<std::tuple<int, int, uint32_t>, Result> cache;
    auto key = std::make_tuple(static_cast<int>(p), f.seed, f.len);
    auto it = cache.find(key);
    if (it == cache.end()) {
        it = cache.emplace(key, run(p, f, Cuts{})).first;
    }
    return it->second;
}

static bool o5m_short_tail(const FileRef& f) { return g_seeds[f.seed].fmt == "o5m" && structure(f).o5m_short_tail; }

static std::string file_class(const FileRef& f) {
    const Seed& s = g_seeds[f.seed];
    std::string c = f.len < s.data.size() ? "truncated" : s.error_seed ? "error-seed" : "valid";
    if (o5m_short_tail(f)) c += std::string(",") + O5M_SHORT_TAIL;
    return c;
}

static std::string spec_of(Path p, const FileRef& f, const std::string& seg) {
    return std::string(PATH_NAME[p]) + ";" + g_seeds[f.seed].name + ";" + std::to_string(f.len) + ";" + seg;
}

// A split run differs from the unsplit one: find a smallest culprit among the cuts (a single cut, else a pair)
// so that the class key does not depend on which family stumbled over it, then report.
static void report_difference(Path p, const FileRef& f, const Cuts& cuts, const Result& r, const std::string& seg) {
    const Result& base = baseline(p, f);
    const Structure& st = structure(f);
    Cuts culprit = cuts; Result cr = r;
    if (cuts.size() > 1) {
        bool found = false;
        for (uint32_t c : cuts) { Result x = run(p, f, Cuts{c}); ++C["minimisation_runs"]; if (!(x == base)) { culprit = Cuts{c}; cr = x; found = true; break; } }
        if (!found && cuts.size() > 2 && cuts.size() <= 40) {
            for (size_t i = 0; i < cuts.size() && !found; ++i) for (size_t j = i + 1; j < cuts.size() && !found; ++j) {
                Result x = run(p, f, Cuts{cuts[i], cuts[j]}); ++C["minimisation_runs"];
                if (!(x == base)) { culprit = Cuts{cuts[i], cuts[j]}; cr = x; found = true; }
            }
        }
    }
    std::string where = culprit.size() == 1 ? st.name(culprit[0]) : culprit.size() == 2 ? std::string(st.name(culprit[0])) + "+" + st.name(culprit[1]) : "three-or-more-cuts-needed";
    const Seed& s = g_seeds[f.seed];
    std::string key = class_key(s.fmt, o5m_short_tail(f), base, cr, file_class(f), "cut:" + where);
    std::string detail = std::string(PATH_NAME[p]) + " path, input " + s.name + (f.len < s.data.size() ? " truncated to " + std::to_string(f.len) + " of " : " (") + std::to_string(s.data.size()) + " bytes" + (f.len < s.data.size() ? "" : ")") +
        ", cuts at [" + cuts_text(cuts) + "]" + (culprit.size() < cuts.size() ? ", smallest failing subset [" + cuts_text(culprit) + "]" : "") +
        ": in one piece " + base.brief() + " but in pieces " + cr.brief();
    V.report(key, detail, spec_of(p, f, culprit.size() < cuts.size() ? "c:" + cuts_text(culprit) : seg));
}

static bool g_want_sample = false;

static void evaluate(Path p, const FileRef& f, const Cuts& cuts, const std::string& seg) {
    const Result& base = baseline(p, f);
    Result r = run(p, f, cuts);
    if (g_want_sample) {
        g_want_sample = false;
        std::string where;
        for (size_t i = 0; i < cuts.size() && i < 4; ++i) where += std::string(i ? "," : "") + structure(f).name(cuts[i]);
        benum::sample(std::string(PATH_NAME[p]) + " path, " + g_seeds[f.seed].name + "[" + std::to_string(f.len) + " of " + std::to_string(g_seeds[f.seed].data.size()) + " bytes] cut at [" +
                      cuts_text(cuts).substr(0, 60) + (cuts.size() > 12 ? ",..." : "") + "] (" + where + (cuts.size() > 4 ? ",..." : "") + "): " + std::to_string(cuts.size() + 1) + " pieces -> " +
                      (r.ok() ? std::to_string(r.objs.size()) + " objects, eof" : r.end) + (r == base ? " = unsplit" : " DIFFERS from unsplit"));
    }
    ++C["evaluations"];
    ++C[p == DIRECT ? "evaluations_direct" : "evaluations_reader"];
    const Structure& st = structure(f);
    bool inside = false;
    for (uint32_t c : cuts) inside = inside || st.inside_record(c);
    // non-trivial: the parser really got >= 2 pieces and at least one cut lies strictly inside a record/token
    if (inside && (p == DIRECT || g_plan.reads >= 2)) ++C["distinct_nontrivial"];
    std::string oc = g_seeds[f.seed].fmt + (r.ok() ? ": ok, " + std::to_string(r.objs.size()) + " objects" : ": " + exc_key(r.end));
    if (g_outcomes_seen.insert(oc).second) benum::setv("outcomes", oc);
    if (!(r == base)) report_difference(p, f, cuts, r, seg);
}

// ------------------------------------------------------------------------------------------------
// jobs: (path, set of inputs, family) with a rank <-> case bijection
struct Job {
    Path path; Family fam; std::string scope; std::vector<FileRef> files;
    std::vector<bool> pairs_too;    // per input: the 'pairs' family of the same path runs on it in this tier (2-cut segmentations are left to it)
    std::vector<uint64_t> start;    // prefix sums of per-file case counts
    uint64_t total = 0;
    static uint64_t count(Family fam, uint32_t n) {
        if (n < 2) return 0;
        switch (fam) {
            case SINGLE: return n - 1;
            case UNIFORM: { uint64_t k = 0; for (uint32_t u : UNIFORM_SIZES) if (u < n) ++k; return k; }
            case AROUND: return n - 1;
            case PAIRS: return static_cast<uint64_t>(n - 1) * (n - 2) / 2;
        }
        return 0;
    }
    void finish() { start.clear(); total = 0; for (auto& f : files) { start.push_back(total); total += count(fam, f.len); } }
    std::string name() const { return std::string(PATH_NAME[path]) + " path: " + FAMILY_NAME[fam] + " x " + scope + " (" + std::to_string(files.size()) + " inputs, " + std::to_string(total) + " segmentations)"; }
};

// the segmentation with index idx of family fam for an input of n bytes; false = it belongs to another family (run there)
static bool make_case(Family fam, uint32_t n, uint64_t idx, bool pairs_enabled, Cuts& cuts, std::string& seg) {
    switch (fam) {
        case SINGLE: cuts = Cuts{static_cast<uint32_t>(idx + 1)}; seg = "c:" + std::to_string(idx + 1); return true;
        case UNIFORM: {
            uint32_t k = UNIFORM_SIZES[idx];
            cuts = cuts_uniform(n, k); seg = "u:" + std::to_string(k);
            return cuts.size() >= 3 || (cuts.size() == 2 && !pairs_enabled);
        }
        case AROUND: {
            uint32_t p = static_cast<uint32_t>(idx + 1);
            cuts = cuts_around(n, p); seg = "a:" + std::to_string(p);
            if (cuts.size() < 2 || (cuts.size() == 2 && pairs_enabled)) return false;
            if (cuts.size() == n - 1) return false;                            // = uniform size 1
            if (p > 1 && cuts_around(n, p - 1) == cuts) return false;        // same window as p-1 (tiny inputs)
            return true;
        }
        case PAIRS: {      // idx -> (i, j), 1 <= i < j <= n-1, ordered by j then i
            uint64_t j = 2;
            { double dj = (3.0 + std::sqrt(1.0 + 8.0 * static_cast<double>(idx))) / 2.0; j = static_cast<uint64_t>(dj); }
            while ((j - 1) * (j - 2) / 2 > idx) --j;
            while (j * (j - 1) / 2 <= idx) ++j;
            uint64_t i = idx - (j - 1) * (j - 2) / 2 + 1;
            cuts = Cuts{static_cast<uint32_t>(i), static_cast<uint32_t>(j)}; seg = "c:" + cuts_text(cuts);
            return true;
        }
    }
    return false;
}

static void run_job(const Args& a, Job& job) {
    job.finish();
    benum::Sampler sampler(a.seed, 1, job.total / 3 + 1);
    auto body = [&](uint64_t rank) {
        size_t fi = static_cast<size_t>(std::upper_bound(job.start.begin(), job.start.end(), rank) - job.start.begin()) - 1;
        const FileRef& f = job.files[fi];
        Cuts cuts; std::string seg;
        if (a.shard == 1 && rank > job.total / 2 && sampler.want(rank)) g_want_sample = true;
        if (!make_case(job.fam, f.len, rank - job.start[fi], job.pairs_too[fi], cuts, seg)) { ++C["segmentations_run_in_another_family"]; return; }
        evaluate(job.path, f, cuts, seg);
    };
    auto on_death = [&](uint64_t rank, const std::string& what, const std::string& err) {
        size_t fi = static_cast<size_t>(std::upper_bound(job.start.begin(), job.start.end(), rank) - job.start.begin()) - 1;
        const FileRef& f = job.files[fi];
        Cuts cuts; std::string seg;
        make_case(job.fam, f.len, rank - job.start[fi], job.pairs_too[fi], cuts, seg);
        ++C["evaluations"];
        V.report(g_seeds[f.seed].fmt + "/crash-while-reading-in-pieces/" + benum::death_class(what, err) + "/" + file_class(f),
                 std::string(PATH_NAME[job.path]) + " path, input " + g_seeds[f.seed].name + " len " + std::to_string(f.len) + ", cuts [" + cuts_text(cuts).substr(0, 200) + "]: " + what + " " + benum::clean(err.substr(0, 700)),
                 spec_of(job.path, f, seg));
    };
    bool complete = benum::run_isolated(a, 0, job.total, body, on_death);
    benum::bound(job.name(), complete);
}

// ------------------------------------------------------------------------------------------------
// once per input: the unsplit results. (1) both paths agree; (2) PBF: fd path == queue path; (3) bookkeeping
// against the generator's expectation (not a verdict of this property - a valid file that is rejected in one
// piece AND in pieces does not depend on chunking; it is counted and noted)
static void part_unsplit(const Args& a, const std::vector<FileRef>& files) {
    char tmpl[] = "/dev/shm/verif-c06-XXXXXX";
    std::string dir = mkdtemp(tmpl);
    auto body = [&](uint64_t rank) {
        const FileRef& f = files[rank];
        const Seed& s = g_seeds[f.seed];
        const Result& d = baseline(DIRECT, f);
        const Result& r = baseline(READER, f);
        ++C["evaluations"]; ++C["unsplit_inputs"];
        std::string spec = "unsplit;" + s.name + ";" + std::to_string(f.len) + ";-";
        if (!(d == r))
            V.report(s.fmt + "/parser-on-queue-and-full-reader-differ-on-unsplit-input/" + diff_kind(d, r) + "/" + file_class(f),
                     "input " + s.name + " len " + std::to_string(f.len) + ": direct " + d.brief() + " reader " + r.brief(), spec);
        if (s.fmt == "pbf") {
            std::string tmp; const std::string& bytes = bytes_of(f, tmp);
            std::string path = dir + "/in.pbf";
            { std::ofstream o(path, std::ios::binary); o.write(bytes.data(), static_cast<std::streamsize>(bytes.size())); }
            osmium::detail::g_env.clear();
            Result fd = read_all(osmium::io::File{path}, pool());
            unlink(path.c_str());
            ++C["evaluations"]; ++C["pbf_fd_path_vs_queue_path"];
            // the two code paths word an unexpected end of file differently: compare header, objects, eof-or-error
            bool same = fd.objs == r.objs && fd.ok() == r.ok() && (fd.header == r.header || (fd.header.compare(0, 3, "EXC") == 0 && r.header.compare(0, 3, "EXC") == 0));
            if (!same) {
                Result fdn = fd; if (!fd.ok() && !r.ok()) { fdn.end = r.end; if (fd.header.compare(0, 3, "EXC") == 0) fdn.header = r.header; }
                V.report("pbf/file-descriptor-path-and-queue-path-differ/" + diff_kind(fdn, r) + "/" + file_class(f),
                         "input " + s.name + " len " + std::to_string(f.len) + ": read from a file (parser reads the fd) " + fd.brief() + " but through the input queue " + r.brief(), spec);
            }
        }
        if (f.len == s.data.size()) {
            if (!s.error_seed && (!d.ok() || d.objs != s.expect)) {
                ++C["valid_seeds_not_decoded_as_the_generator_expects"];
                benum::note("seed " + s.name + " in one piece: " + d.brief() + " - generator expects " + std::to_string(s.expect.size()) + " objects" + (d.objs.size() == s.expect.size() ? ", first difference: " + [&] { for (size_t i = 0; i < d.objs.size(); ++i) if (d.objs[i] != s.expect[i]) return d.objs[i] + " <> " + s.expect[i]; return std::string(); }() : ""));
            } else ++C["seeds_decoded_as_the_generator_expects"];
            if ((s.name == "opl-mixed-noeol" || s.name == "opl-error-line3" || s.name == "xml-changesets" || s.name == "o5c-hist-jump" || s.name == "pbf-plain-zlib"))
                benum::sample(s.name + " (" + std::to_string(f.len) + " bytes) unsplit -> " + d.brief().substr(0, 330));
        }
    };
    auto on_death = [&](uint64_t rank, const std::string& what, const std::string& err) {
        const FileRef& f = files[rank];
        V.report(g_seeds[f.seed].fmt + "/crash-while-reading-unsplit-input/" + benum::death_class(what, err) + "/" + file_class(f),
                 "input " + g_seeds[f.seed].name + " len " + std::to_string(f.len) + ": " + what + " " + benum::clean(err.substr(0, 700)), "unsplit;" + g_seeds[f.seed].name + ";" + std::to_string(f.len) + ";-");
    };
    bool complete = benum::run_isolated(a, 0, files.size(), body, on_death);
    rmdir(dir.c_str());
    benum::bound("unsplit inputs: direct path == reader path; PBF fd path == queue path (" + std::to_string(files.size()) + " inputs)", complete);
}

// ------------------------------------------------------------------------------------------------
static int seed_index(const std::string& name) {
    for (size_t i = 0; i < g_seeds.size(); ++i) if (g_seeds[i].name == name) return static_cast<int>(i);
    return -1;
}

static Cuts parse_seg(const std::string& seg, uint32_t n) {
    Cuts c;
    if (seg.size() < 2) return c;
    std::string v = seg.substr(2);
    if (seg[0] == 'u') return cuts_uniform(n, static_cast<uint32_t>(atoi(v.c_str())));
    if (seg[0] == 'a') return cuts_around(n, static_cast<uint32_t>(atoi(v.c_str())));
    size_t p = 0;
    while (p < v.size()) { c.push_back(static_cast<uint32_t>(strtoul(v.c_str() + p, nullptr, 10))); p = v.find(',', p); if (p == std::string::npos) break; ++p; }
    return c;
}

static void replay(const Args& a, const std::string& spec) {
    std::vector<std::string> f;
    size_t p = 0;
    while (true) { size_t q = spec.find(';', p); f.push_back(spec.substr(p, q - p)); if (q == std::string::npos) break; p = q + 1; }
    if (f.size() < 4 || seed_index(f[1]) < 0) { fprintf(stderr, "bad replay spec\n"); exit(2); }
    FileRef fr{seed_index(f[1]), static_cast<uint32_t>(atoi(f[2].c_str()))};
    if (f[0] == "unsplit") { part_unsplit(a, {fr}); return; }
    Path path = f[0] == "reader" ? READER : DIRECT;
    Cuts cuts = parse_seg(f[3], fr.len);
    // same isolation as the enumeration, so that a crashing case is reported under the same key
    auto body = [&](uint64_t) { evaluate(path, fr, cuts, f[3]); };
    auto on_death = [&](uint64_t, const std::string& what, const std::string& err) {
        V.report(g_seeds[fr.seed].fmt + "/crash-while-reading-in-pieces/" + benum::death_class(what, err) + "/" + file_class(fr), what + " " + benum::clean(err.substr(0, 700)), spec);
    };
    benum::run_isolated(a, 0, 1, body, on_death);
}

int main(int argc, char** argv) {
    Args a = benum::parse_args(argc, argv);
    std::string datadir, part, only_fmt;
    for (size_t i = 0; i + 1 < a.rest.size(); i += 2) {
        if (a.rest[i] == "--data") datadir = a.rest[i + 1];
        else if (a.rest[i] == "--part") part = a.rest[i + 1];
        else if (a.rest[i] == "--fmt") only_fmt = a.rest[i + 1];
    }
    if (datadir.empty()) datadir = C06_DATA_DIR;      // written by gen.py; check.py passes the path at compile time
    g_seeds = load_seeds(datadir);
    if (g_seeds.empty()) { fprintf(stderr, "no seeds in %s\n", datadir.c_str()); return 2; }
    osmium::io::CompressionFactory::instance().register_compression(osmium::io::file_compression::gzip,
        [](int, osmium::io::fsync) { return nullptr; },
        [](int) { return new ChunkingDecompressor; },
        [](const char*, size_t) { return new ChunkingDecompressor; });
    if (a.replay) { a.shard = 0; a.nshards = 1; replay(a, a.replay_spec); C.emit(); return 0; }
    {   // self-check of the rank <-> pair bijection
        std::set<std::pair<uint32_t, uint32_t>> seen; Cuts c; std::string seg;
        for (uint64_t i = 0; i < Job::count(PAIRS, 40); ++i) { make_case(PAIRS, 40, i, true, c, seg); if (c.size() != 2 || c[0] < 1 || c[0] >= c[1] || c[1] > 39 || !seen.insert({c[0], c[1]}).second) { fprintf(stderr, "pair unranking broken\n"); return 2; } }
    }

    // input sets
    std::vector<FileRef> seeds, prefixes;
    for (size_t i = 0; i < g_seeds.size(); ++i) {
        const Seed& s = g_seeds[i];
        if (!only_fmt.empty() && s.fmt != only_fmt) continue;
        seeds.push_back(FileRef{static_cast<int>(i), static_cast<uint32_t>(s.data.size())});
        if (s.trunc) for (uint32_t l = 2; l < s.data.size(); ++l) prefixes.push_back(FileRef{static_cast<int>(i), l});
    }
    // "small" seeds: everything below 100 bytes and the smallest other valid seed of each format
    std::set<int> small;
    for (auto& f : seeds) if (f.len < 100) small.insert(f.seed);
    for (const char* fmt : {"opl", "xml", "o5m", "pbf"}) {
        int best = -1;
        for (auto& f : seeds) if (g_seeds[f.seed].fmt == fmt && f.len >= 100 && !g_seeds[f.seed].error_seed && (best < 0 || f.len < g_seeds[best].data.size())) best = f.seed;
        if (best >= 0) small.insert(best);
    }
    auto is_seed = [&](const FileRef& f) { return f.len == g_seeds[f.seed].data.size(); };
    auto sparse = [&](const FileRef& f) { return f.len % 8 == 3; };                       // every 8th prefix length

    if (part == "unsplit") {
        std::vector<FileRef> all = seeds; all.insert(all.end(), prefixes.begin(), prefixes.end());
        part_unsplit(a, all);
    } else if (part == "split") {
        const bool T = a.thorough;
        // where the 'pairs' family runs
        auto pairs_run = [&](Path p, const FileRef& f) {
            if (is_seed(f)) return small.count(f.seed) > 0 ? (p == DIRECT || T) : (p == DIRECT && T);
            return p == DIRECT && T && (g_seeds[f.seed].data.size() <= 330 || sparse(f));
        };
        using Pred = std::function<bool(const FileRef&)>;
        std::vector<Job> jobs;
        auto add = [&](Path p, Family fam, const char* scope, const std::vector<FileRef>& from, const Pred& pred) {
            Job j; j.path = p; j.fam = fam; j.scope = scope;
            for (auto& f : from) if (pred(f) && (fam != PAIRS || pairs_run(p, f))) { j.files.push_back(f); j.pairs_too.push_back(pairs_run(p, f)); }
            if (!j.files.empty()) jobs.push_back(j);
        };
        Pred any = [](const FileRef&) { return true; };
        Pred is_small = [&](const FileRef& f) { return small.count(f.seed) > 0; };
        Pred not_small = [&](const FileRef& f) { return small.count(f.seed) == 0; };
        Pred every8th = sparse;
        // smallest first; the direct path is the work horse, a full Reader costs several thread hand-overs per run
        for (Family fam : {SINGLE, UNIFORM, AROUND}) {
            add(DIRECT, fam, "small seeds", seeds, is_small);
            add(DIRECT, fam, "other seeds", seeds, not_small);
        }
        add(READER, SINGLE, "small seeds", seeds, is_small);
        add(READER, UNIFORM, "all seeds", seeds, any);
        add(READER, AROUND, "small seeds", seeds, is_small);
        add(READER, SINGLE, "other seeds", seeds, not_small);
        for (Family fam : {SINGLE, UNIFORM, AROUND}) add(DIRECT, fam, "every prefix of the 't' seeds", prefixes, any);
        add(READER, UNIFORM, T ? "every prefix of the 't' seeds" : "every 8th prefix of the 't' seeds", prefixes, T ? any : every8th);
        add(DIRECT, PAIRS, "small seeds", seeds, is_small);
        if (T) {
            add(READER, AROUND, "other seeds", seeds, not_small);
            add(READER, SINGLE, "every 8th prefix of the 't' seeds", prefixes, every8th);
            add(READER, AROUND, "every 8th prefix of the 't' seeds", prefixes, every8th);
            add(READER, PAIRS, "small seeds", seeds, is_small);
            add(DIRECT, PAIRS, "other seeds", seeds, not_small);
            add(DIRECT, PAIRS, "prefixes of the 't' seeds (every one up to 330 bytes seed size, every 8th beyond)", prefixes, any);
        }
        for (auto& j : jobs) run_job(a, j);
    } else { fprintf(stderr, "unknown part\n"); return 2; }
    C.emit();
    return 0;
}
