#!/usr/bin/env python3
"""C06 seed generator: small valid files in the four formats + the canonical dump each one denotes.

    python3 gen.py <outdir>

PBF and o5m come from the specification-derived encoders in engine/spec (not from libosmium); XML and OPL are
written by the small text encoders below (also independent of libosmium). Output:
    <outdir>/<name>.<ext>     the file
    <outdir>/<name>.expect    canonical dump, one object per line (see canon_* below; the harness prints the same)
    <outdir>/LIST             one line per seed:  name <TAB> format <TAB> file <TAB> flags   (flags: t = also enumerate
                              every truncation of this seed, e = the file is expected to be rejected (error seed))
"""
import os
import sys
import time

sys.dont_write_bytecode = True      # engine/spec is shared and read-only: leave no __pycache__ there

HERE = os.path.dirname(os.path.abspath(__file__))
sys.path.insert(0, os.path.join(os.path.dirname(os.path.dirname(HERE)), "engine", "spec"))
import o5m  # noqa: E402
import pbf  # noqa: E402

UNDEF = 2147483647

# ------------------------------------------------------------------------------------------------
# abstract data sets (dict layout of engine/spec: lon/lat in 1e-7 degree units)


def node(i, lon, lat, tags=(), version=1, ts=1420070400, cs=10, uid=7, user="anna", visible=True):
    return {"type": "n", "id": i, "version": version, "timestamp": ts, "changeset": cs, "uid": uid, "user": user,
            "tags": list(tags), "lon": lon, "lat": lat, "visible": visible}


def way(i, refs, tags=(), version=1, ts=1420070500, cs=11, uid=7, user="anna", visible=True):
    return {"type": "w", "id": i, "version": version, "timestamp": ts, "changeset": cs, "uid": uid, "user": user,
            "tags": list(tags), "refs": list(refs), "visible": visible}


def rel(i, members, tags=(), version=1, ts=1420070600, cs=12, uid=8, user="bob", visible=True):
    return {"type": "r", "id": i, "version": version, "timestamp": ts, "changeset": cs, "uid": uid, "user": user,
            "tags": list(tags), "members": list(members), "visible": visible}


DS_SMALL = {
    "objects": [
        node(1, 10000000, 20000000, [("name", "Café <A&B>"), ("amenity", "cafe")]),
        node(2, -1234567, 899999999 // 10, [], version=2, ts=1420070401, cs=10),
        way(5, [1, 2, 1], [("highway", "path")]),
        rel(9, [("w", 5, "outer"), ("n", 1, ""), ("r", 9, "x y")], [("type", "multipolygon")]),
    ],
    "header": {"generator": "verif", "timestamp": 1420156800, "boxes": [(-20000000, -10000000, 30000000, 900000000)]},
}

DS_MAIN = {
    "objects": [
        node(10, 10000001, -5000003, [("k1", "value number 1")], user="user1", uid=8),
        node(20, 20000001, -10000003, [], version=2, ts=1420070402, cs=102, uid=9, user="user2"),
        node(30, 30000001, -15000003, [("k1", "value number 1"), ("name", "x y")], version=3, ts=1420070403, cs=103, uid=8, user="user1"),
        node(41, 1799999999, 899999999, [("amenity", "cafe")], version=4, ts=1420070404, cs=104, uid=9, user="user2"),
        way(7, [10, 20], [("highway", "primary")], cs=201, uid=9, user="user2"),
        way(14, [10, 20, 30, 41, 10], [("highway", "primary"), ("name", "x y")], version=2, ts=1420080002, cs=202, uid=9, user="user2"),
        rel(3, [("w", 7, "outer"), ("n", 10, "")], [("type", "multipolygon")], cs=301),
        rel(6, [("w", 14, "outer"), ("w", 7, "inner"), ("r", 3, "sub"), ("n", 41, "")], [("type", "multipolygon"), ("name", "x y")], version=2, ts=1420090002, cs=302),
    ],
    "header": {"generator": "verif", "timestamp": 1420156800, "boxes": [(10000000, -20000000, 1800000000, 900000000)]},
}

DS_HIST = {   # history / change data: several versions, deleted objects without body
    "history": True,
    "objects": [
        node(1, 10000000, 20000000, [("name", "a")], version=1, ts=1420070400, cs=1),
        node(1, 10000005, 20000005, [("name", "a")], version=2, ts=1420070410, cs=2),
        node(1, 0, 0, [], version=3, ts=1420070420, cs=3, visible=False),
        node(2, -1, -1, [("name", "a")], version=1, ts=1420070430, cs=4, uid=9, user="carl"),
        way(5, [1, 2], [("highway", "path")], version=1, ts=1420070440, cs=5),
        way(5, [], [], version=2, ts=1420070450, cs=6, visible=False),
        rel(9, [("w", 5, "outer"), ("n", 1, "")], [("type", "site")], version=1, ts=1420070460, cs=7),
        rel(9, [], [], version=2, ts=1420070470, cs=8, visible=False),
    ],
    "header": {"timestamp": 1420156800, "boxes": [(-10, -10, 10000005, 20000005)]},
}

CHANGESETS = [
    {"id": 17, "created": 1420070400, "closed": 1420074000, "num_changes": 3, "uid": 7, "user": "anna",
     "box": (10000000, 20000000, 30000000, 40000000), "tags": [("comment", "first & only"), ("created_by", "verif")],
     "comments": [(1420070500, 8, "bob", "Looks <good> to me"), (1420070600, 7, "anna", "thanks ü€!")]},
    {"id": 18, "created": 1420080000, "closed": 0, "num_changes": 0, "uid": 8, "user": "bob",
     "box": None, "tags": [], "comments": []},
]

# ------------------------------------------------------------------------------------------------
# canonical dump (the harness prints exactly this from what the library delivered)


def esc(s):
    out = []
    for b in s.encode("utf-8"):
        if 0x21 <= b <= 0x7e and chr(b) not in "%{}|=,@":
            out.append(chr(b))
        else:
            out.append("%%%02x" % b)
    return "".join(out)


def canon_tags(tags):
    return "T{" + "|".join(esc(k) + "=" + esc(v) for k, v in tags) + "}"


def canon_obj(o, fmt):
    vis = o.get("visible", True)
    s = "%s%d v%d %s c%d t%d i%d u%s %s" % (o["type"], o["id"], o["version"], "V" if vis else "D", o["changeset"],
                                          o["timestamp"], o["uid"], esc(o["user"]), canon_tags(o["tags"]))
    if o["type"] == "n":
        if vis or fmt in ("xml", "opl"):
            s += " x%d y%d" % (o["lon"], o["lat"])
        else:
            s += " x%d y%d" % (UNDEF, UNDEF)
    elif o["type"] == "w":
        s += " N{" + ",".join(str(r) for r in o["refs"]) + "}"
    else:
        s += " M{" + "|".join("%s%d@%s" % (t, r, esc(role)) for t, r, role in o["members"]) + "}"
    return s


def canon_changeset(c):
    b = c["box"]
    s = "c%d s%d e%d k%d d%d i%d u%s " % (c["id"], c["created"], c["closed"], c["num_changes"], len(c["comments"]), c["uid"], esc(c["user"]))
    s += "b(%d,%d,%d,%d) " % b if b else "b() "
    s += canon_tags(c["tags"])
    s += " D{" + "|".join("%d,%d,%s,%s" % (d, uid, esc(u), esc(t)) for d, uid, u, t in c["comments"]) + "}"
    return s


# ------------------------------------------------------------------------------------------------
# text encoders

def iso(ts):
    return time.strftime("%Y-%m-%dT%H:%M:%SZ", time.gmtime(ts))


def fix7(v):
    sign = "-" if v < 0 else ""
    v = abs(v)
    frac = ("%07d" % (v % 10000000)).rstrip("0")
    return sign + str(v // 10000000) + ("." + frac if frac else "")


def xml_attr(s, quote='"'):
    s = s.replace("&", "&amp;").replace("<", "&lt;").replace(">", "&gt;")
    return s.replace('"', "&quot;") if quote == '"' else s.replace("'", "&apos;")


def xml_obj(o, q, numeric_entities=False):
    el = {"n": "node", "w": "way", "r": "relation"}[o["type"]]

    def a(k, v):
        v = xml_attr(str(v), q)
        if numeric_entities:
            v = "".join("&#x%X;" % ord(ch) if ord(ch) > 0x7f else ch for ch in v)
        return " %s=%s%s%s" % (k, q, v, q)
    s = " <" + el + a("id", o["id"]) + a("version", o["version"]) + a("timestamp", iso(o["timestamp"])) + a("uid", o["uid"]) + \
        a("user", o["user"]) + a("changeset", o["changeset"])
    if not o.get("visible", True):
        s += a("visible", "false")
    if o["type"] == "n":
        s += a("lat", fix7(o["lat"])) + a("lon", fix7(o["lon"]))
    inner = ""
    for r in o.get("refs", []):
        inner += "  <nd" + a("ref", r) + "/>\n"
    for t, r, role in o.get("members", []):
        inner += "  <member" + a("type", {"n": "node", "w": "way", "r": "relation"}[t]) + a("ref", r) + a("role", role) + "/>\n"
    for k, v in o["tags"]:
        inner += "  <tag" + a("k", k) + a("v", v) + "/>\n"
    if inner:
        return s + ">\n" + inner + " </" + el + ">\n"
    return s + "/>\n"


def xml_file(ds, q='"', eol="\n", bom=False, comment=False, numeric_entities=False):
    s = "<?xml version=%s1.0%s encoding=%sUTF-8%s?>\n" % (q, q, q, q)
    s += "<osm version=%s0.6%s generator=%sverif%s>\n" % (q, q, q, q)
    h = ds.get("header", {})
    if h.get("boxes"):
        x1, y1, x2, y2 = h["boxes"][0]
        s += " <bounds minlat=%s%s%s minlon=%s%s%s maxlat=%s%s%s maxlon=%s%s%s/>\n" % (q, fix7(y1), q, q, fix7(x1), q, q, fix7(y2), q, q, fix7(x2), q)
    for i, o in enumerate(ds["objects"]):
        if comment and i == 1:
            s += " <!-- a comment with <node id='99'/> inside -->\n"
        s += xml_obj(o, q, numeric_entities)
    s += "</osm>\n"
    b = s.replace("\n", eol).encode("utf-8")
    return (b"\xef\xbb\xbf" if bom else b"") + b


def xml_change(ds):
    """osmChange: version 1 objects in <create>, later visible versions in <modify>, deleted ones in <delete>"""
    s = '<?xml version="1.0" encoding="UTF-8"?>\n<osmChange version="0.6" generator="verif">\n'
    cur = None
    for o in ds["objects"]:
        sec = "delete" if not o.get("visible", True) else ("create" if o["version"] == 1 else "modify")
        if sec != cur:
            if cur:
                s += "</%s>\n" % cur
            s += "<%s>\n" % sec
            cur = sec
        x = dict(o)
        x["visible"] = True          # visibility is carried by the section, not by an attribute
        s += xml_obj(x, '"')
    s += "</%s>\n</osmChange>\n" % cur
    return s.encode("utf-8")


def xml_changesets(css, cdata=False):
    s = '<?xml version="1.0" encoding="UTF-8"?>\n<osm version="0.6" generator="verif">\n'
    for c in css:
        s += ' <changeset id="%d" created_at="%s"' % (c["id"], iso(c["created"]))
        if c["closed"]:
            s += ' closed_at="%s" open="false"' % iso(c["closed"])
        else:
            s += ' open="true"'
        s += ' num_changes="%d" user="%s" uid="%d" comments_count="%d"' % (c["num_changes"], xml_attr(c["user"]), c["uid"], len(c["comments"]))
        if c["box"]:
            s += ' min_lon="%s" min_lat="%s" max_lon="%s" max_lat="%s"' % tuple(fix7(v) for v in c["box"])
        if not c["tags"] and not c["comments"]:
            s += "/>\n"
            continue
        s += ">\n"
        for k, v in c["tags"]:
            s += '  <tag k="%s" v="%s"/>\n' % (xml_attr(k), xml_attr(v))
        if c["comments"]:
            s += "  <discussion>\n"
            for n, (d, uid, u, t) in enumerate(c["comments"]):
                text = "<![CDATA[%s]]>" % t if cdata and n == 0 else xml_attr(t)
                s += '   <comment date="%s" uid="%d" user="%s">\n    <text>%s</text>\n   </comment>\n' % (iso(d), uid, xml_attr(u), text)
            s += "  </discussion>\n"
        s += " </changeset>\n"
    s += "</osm>\n"
    return s.encode("utf-8")


def opl_str(s):
    out = ""
    for ch in s:
        if ch in " \n\r\t,=@%" or ord(ch) < 0x21 or ord(ch) == 0x7f:
            out += "%%%x%%" % ord(ch)
        else:
            out += ch
    return out


def opl_line(o):
    s = "%s%d v%d d%s c%d t%s i%d u%s T%s" % (o["type"], o["id"], o["version"], "V" if o.get("visible", True) else "D", o["changeset"],
                                             iso(o["timestamp"]), o["uid"], opl_str(o["user"]),
                                             ",".join(opl_str(k) + "=" + opl_str(v) for k, v in o["tags"]))
    if o["type"] == "n":
        s += " x%s y%s" % (fix7(o["lon"]), fix7(o["lat"]))
    elif o["type"] == "w":
        s += " N" + ",".join("n%d" % r for r in o["refs"])
    else:
        s += " M" + ",".join("%s%d@%s" % (t, r, opl_str(role)) for t, r, role in o["members"])
    return s


def opl_changeset_line(c):
    s = "c%d k%d s%s e%s d%d i%d u%s" % (c["id"], c["num_changes"], iso(c["created"]), iso(c["closed"]) if c["closed"] else "", len(c["comments"]), c["uid"], opl_str(c["user"]))
    if c["box"]:
        s += " x%s y%s X%s Y%s" % tuple(fix7(v) for v in c["box"])
    else:
        s += " x y X Y"
    s += " T" + ",".join(opl_str(k) + "=" + opl_str(v) for k, v in c["tags"])
    return s


# ------------------------------------------------------------------------------------------------

def main(outdir):
    os.makedirs(outdir, exist_ok=True)
    listing = []

    def put(name, fmt, ext, data, expect, flags=""):
        with open(os.path.join(outdir, name + "." + ext), "wb") as fh:
            fh.write(data)
        with open(os.path.join(outdir, name + ".expect"), "w") as fh:
            for line in expect:
                fh.write(line + "\n")
        listing.append("%s\t%s\t%s.%s\t%s" % (name, fmt, name, ext, flags or "-"))

    def dump(ds, fmt):
        return [canon_obj(o, fmt) for o in ds["objects"]]

    # ---- OPL: LF / CRLF / CR / mixed with empty lines and no final newline / changesets / an error seed
    lines_small = [opl_line(o) for o in DS_SMALL["objects"]]
    lines_main = [opl_line(o) for o in DS_MAIN["objects"]]
    put("opl-crlf", "opl", "opl", ("\r\n".join(lines_small) + "\r\n").encode(), dump(DS_SMALL, "opl"), "t")
    put("opl-cr", "opl", "opl", ("\r".join(lines_small) + "\r").encode(), dump(DS_SMALL, "opl"))
    mixed = "\n" + lines_small[0] + "\n\n" + lines_small[1] + "\r\n\r\n" + lines_small[2] + "\r\r" + lines_small[3]
    put("opl-mixed-noeol", "opl", "opl", mixed.encode(), dump(DS_SMALL, "opl"), "t")
    put("opl-lf", "opl", "opl", ("\n".join(lines_main) + "\n").encode(), dump(DS_MAIN, "opl"))
    cs_lines = [opl_changeset_line(c) for c in CHANGESETS]
    put("opl-changesets", "opl", "opl", ("\n".join(cs_lines + lines_small[:1]) + "\n").encode(),
        [canon_changeset_opl(c) for c in CHANGESETS] + dump(DS_SMALL, "opl")[:1])
    bad = lines_small[0] + "\r\n\r\n" + lines_small[1] + "\n" + "w5 v1 dV cX t i7 u T N" + "\r\n" + lines_small[3] + "\n"
    put("opl-error-line3", "opl", "opl", bad.encode(), [], "e")
    # comment lines (a line starting with '#' is ignored, but counted for the line number of a later error) and empty lines
    commented = "# first comment\n" + lines_small[0] + "\n#\n\n# a longer comment line, with = , @ % characters\r\n" + lines_small[1] + "\n" + lines_small[2] + "\n#last"
    put("opl-comments", "opl", "opl", commented.encode(), dump(DS_SMALL, "opl")[:3], "t")
    bad2 = "# comment before the data\n" + lines_small[0] + "\n# another comment\n" + "n7 v1 dV c1 t i7 u T xNaN y1" + "\n" + lines_small[1] + "\n"
    put("opl-error-after-comments", "opl", "opl", bad2.encode(), [], "e")

    # ---- XML
    tiny = {"objects": [node(1, 10000000, 20000000, [("n", "é&")]), node(2, -1, 5), way(5, [1, 2])]}
    put("xml-tiny", "xml", "osm", xml_file(tiny), dump(tiny, "xml"))
    put("xml-small", "xml", "osm", xml_file(DS_SMALL, comment=True), dump(DS_SMALL, "xml"), "t")
    put("xml-main-sq", "xml", "osm", xml_file(DS_MAIN, q="'"), dump(DS_MAIN, "xml"))
    put("xml-crlf-bom-ent", "xml", "osm", xml_file(DS_SMALL, eol="\r\n", bom=True, numeric_entities=True), dump(DS_SMALL, "xml"))
    put("xml-changesets", "xml", "osm", xml_changesets(CHANGESETS, cdata=True), [canon_changeset(c) for c in CHANGESETS], "t")
    put("xml-change", "xml", "osc", xml_change(DS_HIST), dump(DS_HIST, "xml"))

    # ---- o5m / o5c
    put("o5m-ref", "o5m", "o5m", o5m.encode(DS_MAIN), dump(DS_MAIN, "o5m"), "t")
    put("o5m-inline-noend", "o5m", "o5m", o5m.encode(DS_SMALL, {"strings": "inline", "reset": "every", "end": "none", "header": "none"}), dump(DS_SMALL, "o5m"))
    put("o5c-hist-jump", "o5m", "o5c", o5m.encode(DS_HIST, {"filetype": "o5c", "extras": "sync_jump", "strings": "mixed"}), dump(DS_HIST, "o5m"), "t")
    put("o5m-unknown-tsfirst", "o5m", "o5m", o5m.encode(DS_SMALL, {"extras": "unknown", "header": "ts_first", "strings": "mixed_oldest"}), dump(DS_SMALL, "o5m"))
    # tiny files whose last data set is short: `tail` = bytes in the file after the last data set's type byte
    sizes = {1: 10, 2: 5000, 3: 700000, 4: 90000000, 5: 890000000}     # svarint length -> a value of that length
    for end in (True, False):
        for lon_len, lat_len in ((1, 1), (2, 1), (2, 2), (3, 2), (3, 3), (4, 3), (4, 4), (5, 4), (5, 5)):
            first = node(5, 123, 456, [("a", "b")])
            assert len(o5m.svarint(sizes[lon_len])) == lon_len and len(o5m.svarint(sizes[lat_len])) == lat_len
            last = node(6, sizes[lon_len] + 123, sizes[lat_len] + 456, [], version=0, ts=0, cs=0, uid=0, user="")
            w = o5m.Writer().start()
            w.reset()
            w.object(first)
            before = len(w.getvalue())
            w.object(last)
            if end:
                w.end()
            data = w.getvalue()
            tail = len(data) - before - 1
            put("o5m-tail%02d-%s" % (tail, "fe" if end else "noend"), "o5m", "o5m", data, [canon_obj(first, "o5m"), canon_obj(last, "o5m")])

    # the same with a short unknown data set (type 0x40, skipped by its length) as the last one: tails 1..5
    for end in (True, False):
        for plen in (0, 1, 2, 3):
            first = node(5, 123, 456, [("a", "b")])
            w = o5m.Writer().start()
            w.reset()
            w.object(first)
            before = len(w.getvalue())
            w.raw(0x40, bytes(range(1, plen + 1)))
            if end:
                w.end()
            data = w.getvalue()
            put("o5m-tail%02d-%s" % (len(data) - before - 1, "fe" if end else "noend"), "o5m", "o5m", data, [canon_obj(first, "o5m")])

    # ---- PBF
    put("pbf-dense-raw", "pbf", "pbf", pbf.encode(DS_MAIN, {"grouping": "block_per_type"}), dump(DS_MAIN, "pbf"), "t")
    put("pbf-plain-zlib", "pbf", "pbf", pbf.encode(DS_SMALL, {"nodes": "plain", "blob": "zlib", "grouping": "block_per_object", "header": "min"}), dump(DS_SMALL, "pbf"), "t")
    put("pbf-mixed-lz4", "pbf", "pbf", pbf.encode(DS_MAIN, {"nodes": "mixed", "blob": "lz4", "unknown": "mixed", "info": "full", "empty": "blocks", "header": "min"}), dump(DS_MAIN, "pbf"))
    put("pbf-rawsize-padded", "pbf", "pbf", pbf.encode(DS_SMALL, {"blob": "raw+size", "stringtable": "padded", "defaults": "explicit", "hdrsize": 40, "granularity": 1}), dump(DS_SMALL, "pbf"))

    with open(os.path.join(outdir, "LIST"), "w") as fh:
        fh.write("\n".join(listing) + "\n")
    print("generated %d seeds in %s" % (len(listing), outdir))


def canon_changeset_opl(c):
    """OPL carries no discussion: the comment count (d) is kept, the comments themselves are not"""
    b = c["box"]
    s = "c%d s%d e%d k%d d%d i%d u%s " % (c["id"], c["created"], c["closed"], c["num_changes"], len(c["comments"]), c["uid"], esc(c["user"]))
    s += "b(%d,%d,%d,%d) " % b if b else "b() "
    return s + canon_tags(c["tags"]) + " D{}"


if __name__ == "__main__":
    if len(sys.argv) != 2:
        sys.exit("usage: gen.py <new output directory>   (check.py calls this; data lives under /verif/build/C06-data/<hash>)")
    main(sys.argv[1])
