// C06, real file-descriptor paths: the same inputs written to real files and read through the library's own
// NoDecompressor / GzipDecompressor / Bzip2Decompressor (plain, .gz, .bz2) and, for PBF, through the parser's own
// fd reading (read_exactly). This source is compiled several times:
//   -DOSMIUM_VERIF_INPUT_BUFFER_SIZE=k (hook H5), k in {1,2,3,5,7,64}: every decompressor hands out pieces of k bytes
//   without it (1 MiB pieces): part "shortread" makes read(2) on the input file return short at one chosen offset p
//     (every p) - what a pipe or a network file system does; the piece boundary / the resumed read_exactly() is at p
// Oracle: identical to the result of the same bytes given to the Reader as one in-memory buffer (one piece). For PBF
// the fd path and the queue path word an unexpected end of file differently, so there header, objects and
// "eof or error" are compared, not the text of the error.
#define C06_FD
#include "c06.hpp"

#include <bzlib.h>
#include <sys/stat.h>
#include <sys/syscall.h>
#include <zlib.h>

using namespace c06;
using benum::Args;

static benum::Counters C;
static benum::Violations V;
static std::vector<Seed> g_seeds;
static std::set<std::string> g_outcomes_seen;

// ------------------------------------------------------------------------------------------------
// short-read plan: read(2) on the file with inode g_ino never crosses offset g_split in one call
static ino_t g_ino = 0;
static off_t g_split = 0;
static uint64_t* g_short_reads = nullptr;     // in shared memory: how often a read was actually shortened
static size_t g_maxread = 0;                  // part "slowfd": every read(2) on that file returns at most this many bytes (a slow pipe / socket)

extern "C" ssize_t read(int fd, void* buf, size_t count) {
    if (g_maxread > 0 && fd > 2) {
        struct stat st;
        if (fstat(fd, &st) == 0 && st.st_ino == g_ino && count > g_maxread) { count = g_maxread; if (g_short_reads) ++*g_short_reads; }
    }
    if (g_split > 0 && fd > 2) {
        struct stat st;
        if (fstat(fd, &st) == 0 && st.st_ino == g_ino) {
            off_t pos = lseek(fd, 0, SEEK_CUR);
            if (pos >= 0 && pos < g_split && static_cast<off_t>(pos + count) > g_split) { count = static_cast<size_t>(g_split - pos); if (g_short_reads) ++*g_short_reads; }
        }
    }
    return syscall(SYS_read, fd, buf, count);
}

static osmium::thread::Pool& pool() {
    static osmium::thread::Pool* p = new osmium::thread::Pool{2, 0};
    return *p;
}

static void write_file(const std::string& path, const std::string& data) {
    FILE* f = fopen(path.c_str(), "wb");
    if (!f || fwrite(data.data(), 1, data.size(), f) != data.size()) { perror("write"); _exit(3); }
    fclose(f);
}

static void write_gz(const std::string& path, const std::string& data) {      // zlib's own writer, not libosmium's
    gzFile g = gzopen(path.c_str(), "wb6");
    if (!g || (data.size() && gzwrite(g, data.data(), static_cast<unsigned>(data.size())) <= 0)) { fprintf(stderr, "gzwrite failed\n"); _exit(3); }
    gzclose(g);
}

static void write_bz2(const std::string& path, const std::string& data) {     // libbz2's one-shot compressor
    unsigned int cap = static_cast<unsigned int>(data.size() + data.size() / 50 + 700), n = cap;
    std::string out(cap, '\0');
    if (BZ2_bzBuffToBuffCompress(&out[0], &n, const_cast<char*>(data.data()), static_cast<unsigned int>(data.size()), 9, 0, 0) != BZ_OK) { fprintf(stderr, "bz2 failed\n"); _exit(3); }
    out.resize(n);
    write_file(path, out);
}

static std::string g_dir;

static std::string bytes_of(const FileRef& f) { return g_seeds[f.seed].data.substr(0, f.len); }

static std::string file_class(const FileRef& f) {
    const Seed& s = g_seeds[f.seed];
    return f.len < s.data.size() ? "truncated" : s.error_seed ? "error-seed" : "valid";
}

static bool o5m_short_tail(const FileRef& f) { return g_seeds[f.seed].fmt == "o5m" && walk("o5m", bytes_of(f)).o5m_short_tail; }

static void compare(const FileRef& f, const Result& base, const Result& r, const std::string& how, const std::string& keypart, const std::string& spec) {
    const Seed& s = g_seeds[f.seed];
    ++C["evaluations"];
    std::string oc = s.fmt + (r.ok() ? ": ok, " + std::to_string(r.objs.size()) + " objects" : ": " + exc_key(r.end));
    if (g_outcomes_seen.insert(oc).second) benum::setv("outcomes", oc);
    Result rn = r;
    if (s.fmt == "pbf" && !r.ok() && !base.ok()) {     // fd path vs queue path: different wording of the same condition
        rn.end = base.end;
        if (r.header.compare(0, 3, "EXC") == 0 && base.header.compare(0, 3, "EXC") == 0) rn.header = base.header;
    }
    if (rn == base) return;
    V.report(class_key(s.fmt, o5m_short_tail(f), base, rn, file_class(f), keypart),
             "input " + s.name + " len " + std::to_string(f.len) + " " + how + ": as one in-memory piece " + base.brief() + " but from the file " + r.brief(), spec);
}

static Result baseline(const FileRef& f, const std::string& bytes) {
    osmium::detail::g_env.clear();
    g_split = 0;
    return read_all(osmium::io::File{bytes.data(), bytes.size(), g_seeds[f.seed].ext}, pool());
}

#ifdef OSMIUM_VERIF_INPUT_BUFFER_SIZE
# define KSTR2(x) #x
# define KSTR(x) KSTR2(x)
static const char* const K = KSTR(OSMIUM_VERIF_INPUT_BUFFER_SIZE);
#else
static const char* const K = "default";
#endif

// one input through plain / gz / bz2 files with the compiled-in piece size
static void case_pieces(const FileRef& f) {
    const Seed& s = g_seeds[f.seed];
    std::string bytes = bytes_of(f);
    Result base = baseline(f, bytes);
    for (const char* comp : {"", ".gz", ".bz2"}) {
        if (s.fmt == "pbf" && *comp) continue;          // a PBF file is not wrapped in a compressed stream
        std::string path = g_dir + "/in." + s.ext + comp;
        if (!*comp) write_file(path, bytes); else if (comp[1] == 'g') write_gz(path, bytes); else write_bz2(path, bytes);
        Result r = read_all(osmium::io::File{path}, pool());
        unlink(path.c_str());
        if (bytes.size() > static_cast<size_t>(atoi(K)) && atoi(K) > 0) ++C["distinct_nontrivial"];     // really delivered in >= 2 pieces
        compare(f, base, r, std::string("read from a ") + (*comp ? comp + 1 : "plain") + " file in pieces of " + K + " bytes",
                std::string("file:") + (*comp ? comp + 1 : "plain") + ",small-pieces", "pieces;" + s.name + ";" + std::to_string(f.len) + ";-");
    }
}

// one input as a plain file, read(2) returning short at offset p
static void case_shortread(const FileRef& f, uint32_t p, const std::string& bytes, const Result& base, const std::string& path) {
    const Seed& s = g_seeds[f.seed];
    g_split = static_cast<off_t>(p);
    uint64_t before = *g_short_reads;
    Result r = read_all(osmium::io::File{path}, pool());
    g_split = 0;
    if (*g_short_reads > before) ++C["distinct_nontrivial"];
    compare(f, base, r, "read from a plain file whose read() returns short at offset " + std::to_string(p), "file:plain,short-read",
            "shortread;" + s.name + ";" + std::to_string(f.len) + ";" + std::to_string(p));
}

// one input as a plain file, EVERY read(2) returning at most k bytes (consecutive short reads, as a slow producer delivers them)
static const uint32_t SLOW_K[] = {1, 2, 3, 5, 7, 64, 700, 1500, 2048, 4095};
static void case_slowfd(const FileRef& f, uint32_t k, const std::string& bytes, const Result& base, const std::string& path) {
    const Seed& s = g_seeds[f.seed];
    g_maxread = k;
    uint64_t before = *g_short_reads;
    Result r = read_all(osmium::io::File{path}, pool());
    g_maxread = 0;
    if (*g_short_reads - before >= 2) ++C["distinct_nontrivial"];
    compare(f, base, r, "read from a plain file whose read() returns at most " + std::to_string(k) + " bytes per call", "file:plain,every-read-short",
            "slowfd;" + s.name + ";" + std::to_string(f.len) + ";" + std::to_string(k));
}

int main(int argc, char** argv) {
    Args a = benum::parse_args(argc, argv);
    std::string datadir = C06_DATA_DIR, part, scope;     // scope (shortread): "subset" = the quick tier's cases, "rest" = all others
    for (size_t i = 0; i + 1 < a.rest.size(); i += 2) {
        if (a.rest[i] == "--data") datadir = a.rest[i + 1];
        else if (a.rest[i] == "--part") part = a.rest[i + 1];
        else if (a.rest[i] == "--scope") scope = a.rest[i + 1];
    }
    g_seeds = load_seeds(datadir);
    if (g_seeds.empty()) { fprintf(stderr, "no seeds in %s\n", datadir.c_str()); return 2; }
    g_short_reads = static_cast<uint64_t*>(mmap(nullptr, sizeof(uint64_t), PROT_READ | PROT_WRITE, MAP_SHARED | MAP_ANONYMOUS, -1, 0));
    char tmpl[] = "/dev/shm/verif-c06fd-XXXXXX";
    g_dir = mkdtemp(tmpl);

    struct Case { FileRef f; uint32_t p; };
    std::vector<Case> cases;
    std::string bound_name;
    if (a.replay) {
        std::vector<std::string> f;
        size_t p = 0;
        while (true) { size_t q = a.replay_spec.find(';', p); f.push_back(a.replay_spec.substr(p, q - p)); if (q == std::string::npos) break; p = q + 1; }
        int si = -1;
        for (size_t i = 0; i < g_seeds.size(); ++i) if (f.size() >= 4 && g_seeds[i].name == f[1]) si = static_cast<int>(i);
        if (si < 0) { fprintf(stderr, "bad replay spec\n"); return 2; }
        part = f[0];
        cases.push_back(Case{FileRef{si, static_cast<uint32_t>(atoi(f[2].c_str()))}, static_cast<uint32_t>(atoi(f[3].c_str()))});
        a.shard = 0; a.nshards = 1;
    } else {
        const bool T = a.thorough;
        if (scope.empty()) scope = T ? "all" : "subset";
        for (size_t i = 0; i < g_seeds.size(); ++i) {
            const Seed& s = g_seeds[i];
            for (uint32_t l = s.trunc ? 2 : static_cast<uint32_t>(s.data.size()); l <= s.data.size(); ++l) {
                FileRef f{static_cast<int>(i), l};
                const bool whole = l == s.data.size();
                if (part == "pieces") { if (T || whole || l % 8 == 3) cases.push_back(Case{f, 0}); continue; }
                if (part == "slowfd") { if (T || whole || l % 8 == 3) for (uint32_t k : SLOW_K) cases.push_back(Case{f, k}); continue; }
                for (uint32_t p = 1; p < l; ++p) {
                    const bool in_subset = whole || (l % 8 == 3 && p % 8 == 5);
                    // "rest" (thorough): PBF - the parser's own read_exactly() - every prefix x every p; the other formats see a
                    // short read as one cut at p, which the split part enumerates exhaustively: every 8th prefix x every p
                    const bool in_rest = !in_subset && (s.fmt == "pbf" || l % 8 == 3);
                    if (scope == "all" || (scope == "subset" && in_subset) || (scope == "rest" && in_rest)) cases.push_back(Case{f, p});
                }
            }
        }
        bound_name = part == "slowfd" ? std::string("plain files with EVERY read() returning at most k bytes, k in {1,2,3,5,7,64,700,1500,2048,4095} x all seeds + ") + (T ? "every prefix" : "every 8th prefix") + " of the 't' seeds" : part == "pieces"
            ? std::string("real files (plain, gz, bz2; PBF: the parser's fd path) in pieces of ") + K + " bytes x all seeds + " + (T ? "every prefix" : "every 8th prefix") + " of the 't' seeds"
            : std::string("plain files with read() returning short at offset p: ") + (scope == "subset" ? "all seeds x every p; every 8th prefix of the 't' seeds x every 8th p" : scope == "rest" ? "every prefix of the PBF 't' seeds x every p, every 8th prefix of the other 't' seeds x every p (minus the subset)" : "all seeds and every prefix of the 't' seeds x every p");
    }
    // consecutive ranks of one input go to the same shard (the file is written once per input there)
    std::string cur_bytes, cur_path; Result cur_base; int cur_seed = -1; uint32_t cur_len = 0;
    auto body = [&](uint64_t rank) {
        const Case& c = cases[rank];
        if (part == "pieces") { case_pieces(c.f); return; }
        if (c.f.seed != cur_seed || c.f.len != cur_len) {
            if (!cur_path.empty()) unlink(cur_path.c_str());
            cur_seed = c.f.seed; cur_len = c.f.len;
            cur_bytes = bytes_of(c.f);
            cur_base = baseline(c.f, cur_bytes);
            cur_path = g_dir + "/sr-" + std::to_string(a.shard) + "." + g_seeds[c.f.seed].ext;
            write_file(cur_path, cur_bytes);
            struct stat st; stat(cur_path.c_str(), &st); g_ino = st.st_ino;
        }
        if (part == "slowfd") case_slowfd(c.f, c.p, cur_bytes, cur_base, cur_path);
        else case_shortread(c.f, c.p, cur_bytes, cur_base, cur_path);
    };
    auto on_death = [&](uint64_t rank, const std::string& what, const std::string& err) {
        const Case& c = cases[rank];
        ++C["evaluations"];
        V.report(g_seeds[c.f.seed].fmt + "/crash-while-reading-a-real-file/" + benum::death_class(what, err) + "/" + file_class(c.f) + "/" + part + "-" + K,
                 "input " + g_seeds[c.f.seed].name + " len " + std::to_string(c.f.len) + ": " + what + " " + benum::clean(err.substr(0, 700)),
                 part + ";" + g_seeds[c.f.seed].name + ";" + std::to_string(c.f.len) + ";" + std::to_string(c.p));
    };
    // shard by input, not by rank: remap so that a.mine() selects whole inputs
    std::vector<Case> mine;
    { uint64_t input_no = 0; for (size_t i = 0; i < cases.size(); ++i) { if (i && (cases[i].f.seed != cases[i - 1].f.seed || cases[i].f.len != cases[i - 1].f.len)) ++input_no; if (a.mine(input_no)) mine.push_back(cases[i]); } }
    cases.swap(mine);
    Args one = a; one.shard = 0; one.nshards = 1;
    bool complete = benum::run_isolated(one, 0, cases.size(), body, on_death);
    if (!a.replay) benum::bound(bound_name, complete);
    // leftovers of this shard
    if (!cur_path.empty()) unlink(cur_path.c_str());
    { std::string cmd = "rm -rf '" + g_dir + "'"; if (system(cmd.c_str()) != 0) {} }
    C.emit();
    return 0;
}
