// C06 - shared by h06.cpp (chunking through the parser input queue / a registered mock decompressor) and
// h06fd.cpp (real fd-based decompressors with a small Decompressor::input_buffer_size, short reads):
// seeds, the canonical result of one read (header + object dump + how it ended), structure walkers that
// classify a cut position, and the segmentation families.
#ifndef VERIF_C06_HPP
#define VERIF_C06_HPP

#define OSMIUM_TEST_RUNNER
#include <cstdlib>
#include <map>
#include <string>
namespace osmium { namespace detail {
    static std::map<std::string, std::string> g_env;     // the library reads its configuration through this
    inline const char* getenv_wrapper(const char* var) noexcept {
        auto it = g_env.find(var);
        return it == g_env.end() ? nullptr : it->second.c_str();
    }
} }

#include <benum/benum.hpp>

#include <osmium/io/compression.hpp>
#ifdef C06_FD
# include <osmium/io/bzip2_compression.hpp>
# include <osmium/io/gzip_compression.hpp>
#endif
#include <osmium/io/o5m_input.hpp>
#include <osmium/io/opl_input.hpp>
#include <osmium/io/pbf_input.hpp>
#include <osmium/io/xml_input.hpp>
#include <osmium/io/reader.hpp>
#include <osmium/osm.hpp>
#include <osmium/thread/pool.hpp>

#include <cxxabi.h>

#include <algorithm>
#include <fstream>
#include <memory>
#include <set>
#include <sstream>
#include <typeinfo>
#include <vector>

namespace c06 {

// ------------------------------------------------------------------------------------------------
// seeds
struct Seed {
    std::string name, fmt, ext, data;
    bool trunc = false, error_seed = false;
    std::vector<std::string> expect;
};

inline std::string slurp(const std::string& path) {
    std::ifstream f(path, std::ios::binary);
    std::stringstream s; s << f.rdbuf();
    return s.str();
}

inline std::vector<Seed> load_seeds(const std::string& dir) {
    std::vector<Seed> v;
    std::ifstream list(dir + "/LIST");
    std::string line;
    while (std::getline(list, line)) {
        std::vector<std::string> f;
        size_t p = 0;
        while (true) { size_t q = line.find('\t', p); f.push_back(line.substr(p, q - p)); if (q == std::string::npos) break; p = q + 1; }
        if (f.size() < 4) continue;
        Seed s;
        s.name = f[0]; s.fmt = f[1]; s.ext = f[2].substr(f[2].rfind('.') + 1);
        s.data = slurp(dir + "/" + f[2]);
        s.trunc = f[3].find('t') != std::string::npos;
        s.error_seed = f[3].find('e') != std::string::npos;
        std::ifstream e(dir + "/" + s.name + ".expect");
        while (std::getline(e, line)) s.expect.push_back(line);
        v.push_back(s);
    }
    return v;
}

// one input of the enumeration: a seed or a proper prefix of it
struct FileRef { int seed; uint32_t len; };

// ------------------------------------------------------------------------------------------------
// canonical result of one read
struct Result {
    std::string header;                 // canonical header text, or "EXC <type>: <message>"
    std::vector<std::string> objs;      // canonical object dump, in delivery order
    std::string end;                    // "eof" or "EXC <type>: <message>"
    bool ok() const { return end == "eof"; }
    bool operator==(const Result& o) const { return header == o.header && objs == o.objs && end == o.end; }
    std::string brief() const {
        return "{header: " + header.substr(0, 160) + "; " + std::to_string(objs.size()) + " objects" + (objs.empty() ? "" : " (last: " + objs.back().substr(0, 100) + ")") + "; end: " + end + "}";
    }
};

inline std::string current_exception_text() {
    try { throw; }
    catch (const std::exception& e) {
        int st = 0;
        char* d = abi::__cxa_demangle(typeid(e).name(), nullptr, nullptr, &st);
        std::string t = (st == 0 && d) ? d : typeid(e).name();
        free(d);
        return "EXC " + t + ": " + e.what();
    } catch (...) { return "EXC (not a std::exception)"; }
}

inline std::string esc(const char* s) {
    std::string r;
    for (; *s; ++s) {
        unsigned char b = static_cast<unsigned char>(*s);
        if (b >= 0x21 && b <= 0x7e && !strchr("%{}|=,@", b)) r += static_cast<char>(b);
        else { char buf[8]; snprintf(buf, sizeof buf, "%%%02x", b); r += buf; }
    }
    return r;
}

inline std::string canon_tags(const osmium::TagList& tl) {
    std::string s = "T{"; bool first = true;
    for (const auto& t : tl) { if (!first) s += "|"; first = false; s += esc(t.key()) + "=" + esc(t.value()); }
    return s + "}";
}

inline std::string canon(const osmium::memory::Item& item) {
    std::ostringstream s;
    using osmium::item_type;
    switch (item.type()) {
        case item_type::node: case item_type::way: case item_type::relation: {
            const auto& o = static_cast<const osmium::OSMObject&>(item);
            s << osmium::item_type_to_char(o.type()) << o.id() << " v" << o.version() << (o.visible() ? " V" : " D") << " c" << o.changeset()
              << " t" << static_cast<uint32_t>(o.timestamp()) << " i" << o.uid() << " u" << esc(o.user()) << " " << canon_tags(o.tags());
            if (o.type() == item_type::node) {
                const auto& n = static_cast<const osmium::Node&>(o);
                s << " x" << n.location().x() << " y" << n.location().y();
            } else if (o.type() == item_type::way) {
                s << " N{"; bool f = true;
                for (const auto& nr : static_cast<const osmium::Way&>(o).nodes()) { if (!f) s << ","; f = false; s << nr.ref(); }
                s << "}";
            } else {
                s << " M{"; bool f = true;
                for (const auto& m : static_cast<const osmium::Relation&>(o).members()) { if (!f) s << "|"; f = false; s << osmium::item_type_to_char(m.type()) << m.ref() << "@" << esc(m.role()); }
                s << "}";
            }
            break;
        }
        case item_type::changeset: {
            const auto& c = static_cast<const osmium::Changeset&>(item);
            s << "c" << c.id() << " s" << static_cast<uint32_t>(c.created_at()) << " e" << static_cast<uint32_t>(c.closed_at()) << " k" << c.num_changes()
              << " d" << c.num_comments() << " i" << c.uid() << " u" << esc(c.user()) << " b(";
            if (c.bounds().bottom_left().is_defined() || c.bounds().top_right().is_defined())
                s << c.bounds().bottom_left().x() << "," << c.bounds().bottom_left().y() << "," << c.bounds().top_right().x() << "," << c.bounds().top_right().y();
            s << ") " << canon_tags(c.tags()) << " D{"; bool f = true;
            for (const auto& cm : c.discussion()) { if (!f) s << "|"; f = false; s << static_cast<uint32_t>(cm.date()) << "," << cm.uid() << "," << esc(cm.user()) << "," << esc(cm.text()); }
            s << "}";
            break;
        }
        default:
            s << "item-type-" << static_cast<int>(item.type());
    }
    return s.str();
}

inline std::string canon(const osmium::io::Header& h) {
    std::ostringstream s;
    s << "multi=" << h.has_multiple_object_versions() << " boxes=[";
    for (const auto& b : h.boxes()) s << "(" << b.bottom_left().x() << "," << b.bottom_left().y() << "," << b.top_right().x() << "," << b.top_right().y() << ")";
    s << "] opts={";
    for (const auto& kv : h) s << esc(kv.first.c_str()) << "=" << esc(kv.second.c_str()) << ",";
    s << "}";
    return s.str();
}

inline void collect(const osmium::memory::Buffer& b, Result& r) {
    for (const auto& item : b) r.objs.push_back(canon(item));
}

// what the caller of a Reader sees: header(), then read() until the end or an exception
inline Result read_all(const osmium::io::File& file, osmium::thread::Pool& pool) {
    Result r;
    try {
        osmium::io::Reader reader{file, pool};
        bool header_ok = true;
        try { r.header = canon(reader.header()); }
        catch (...) { r.header = current_exception_text(); r.end = r.header; header_ok = false; }
        if (header_ok) {
            try {
                while (osmium::memory::Buffer b = reader.read()) collect(b, r);
                r.end = "eof";
            } catch (...) { r.end = current_exception_text(); }
        }
        try { reader.close(); } catch (...) { if (r.ok()) r.end = "close: " + current_exception_text(); }
    } catch (...) {
        r.header = "-"; r.end = "ctor: " + current_exception_text();
    }
    return r;
}

// ------------------------------------------------------------------------------------------------
// structure walkers (independent of the library): the class of a cut placed before byte p, 0 < p < n
inline uint64_t rd_varint(const std::string& d, size_t& q, size_t end, bool& ok) {
    uint64_t v = 0; int sh = 0;
    while (true) {
        if (q >= end || sh > 63) { ok = false; return 0; }
        unsigned char b = static_cast<unsigned char>(d[q++]);
        v |= static_cast<uint64_t>(b & 0x7f) << sh; sh += 7;
        if (!(b & 0x80)) return v;
    }
}

struct Structure {
    std::vector<uint8_t> cls;            // per offset 0..n
    std::vector<const char*> names;
    std::vector<bool> boundary;          // per class: a cut of this class leaves no partial record behind
    bool o5m_short_tail = false;         // some data set's type byte is followed by < 10 bytes until the end of the file
    const char* name(uint32_t p) const { return names[cls[p]]; }
    bool inside_record(uint32_t p) const { return !boundary[cls[p]]; }
};

inline Structure walk(const std::string& fmt, const std::string& d) {
    Structure s;
    const size_t n = d.size();
    s.cls.assign(n + 1, 0);
    if (fmt == "opl") {
        s.names = {"inside-line", "before-eol", "after-CR", "between-CR-and-LF", "after-LF"};
        s.boundary = {false, false, true, true, true};
        for (size_t p = 1; p < n; ++p) {
            char a = d[p - 1], b = d[p];
            s.cls[p] = a == '\r' ? (b == '\n' ? 3 : 2) : a == '\n' ? 4 : (b == '\r' || b == '\n') ? 1 : 0;
        }
    } else if (fmt == "xml") {
        s.names = {"between-tags", "inside-tag", "inside-entity", "inside-utf8-sequence"};
        s.boundary = {true, false, false, false};
        bool tag = false, ent = false;
        for (size_t p = 0; p < n; ++p) {
            unsigned char b = static_cast<unsigned char>(d[p]);
            s.cls[p] = (b & 0xc0) == 0x80 ? 3 : ent ? 2 : tag ? 1 : 0;
            if (b == '<') tag = true; else if (b == '>') tag = false;
            if (b == '&') ent = true; else if (b == ';') ent = false;
        }
    } else if (fmt == "o5m") {
        s.names = {"in-file-header", "at-dataset-boundary", "after-type-byte", "in-length", "before-payload", "in-payload"};
        s.boundary = {false, true, false, false, false, false};
        for (size_t p = 0; p <= n; ++p) s.cls[p] = p < 7 ? 0 : 5;
        size_t q = 7;
        while (q < n) {
            s.cls[q] = 1;
            unsigned char t = static_cast<unsigned char>(d[q]);
            if (t >= 0xf0) { ++q; continue; }
            if (n - (q + 1) < 10) s.o5m_short_tail = true;
            if (q + 1 <= n) s.cls[q + 1] = 2;
            size_t l = q + 1; bool ok = true;
            uint64_t len = rd_varint(d, l, n, ok);
            for (size_t k = q + 2; k < std::min(l, n + 1); ++k) s.cls[k] = 3;
            if (!ok) break;
            if (l <= n) s.cls[l] = 4;
            if (len > n - l) break;
            q = l + static_cast<size_t>(len);
        }
    } else {   // pbf
        s.names = {"at-frame-boundary", "in-size-prefix", "after-size-prefix", "in-blob-header", "between-header-and-blob", "in-blob"};
        s.boundary = {true, false, false, false, false, false};
        size_t f = 0;
        while (f < n) {
            s.cls[f] = 0;
            for (size_t k = f + 1; k < std::min(f + 4, n + 1); ++k) s.cls[k] = 1;
            if (f + 4 > n) break;
            uint32_t hs = (static_cast<unsigned char>(d[f]) << 24) | (static_cast<unsigned char>(d[f + 1]) << 16) | (static_cast<unsigned char>(d[f + 2]) << 8) | static_cast<unsigned char>(d[f + 3]);
            s.cls[f + 4] = 2;
            size_t he = std::min<size_t>(f + 4 + hs, n);
            for (size_t k = f + 5; k <= he; ++k) s.cls[k] = 3;
            if (f + 4 + hs > n) break;
            // BlobHeader.datasize = field 3, varint
            size_t q = f + 4; uint64_t datasize = 0; bool ok = true;
            while (q < he && ok) {
                uint64_t key = rd_varint(d, q, he, ok); if (!ok) break;
                uint64_t val = rd_varint(d, q, he, ok); if (!ok) break;
                if ((key & 7) == 2) q += static_cast<size_t>(val); else if ((key >> 3) == 3) datasize = val;
            }
            s.cls[he] = 4;
            size_t be = std::min<size_t>(he + datasize, n);
            for (size_t k = he + 1; k <= be; ++k) s.cls[k] = 5;
            if (!ok || datasize == 0 || he + datasize > n) break;
            f = he + static_cast<size_t>(datasize);
        }
    }
    return s;
}

// numbers -> N (digits glued to a letter, as in "o5m", stay), blanks -> '-': a message becomes usable in a class key
inline std::string keyify(const std::string& t, size_t maxlen = 110) {
    std::string r;
    for (size_t i = 0; i < t.size() && r.size() < maxlen; ++i) {
        unsigned char c = static_cast<unsigned char>(t[i]);
        if (isdigit(c) && !(i > 0 && isalpha(static_cast<unsigned char>(t[i - 1])) && i + 1 < t.size() && isalpha(static_cast<unsigned char>(t[i + 1])))) { if (r.empty() || r.back() != 'N') r += 'N'; }
        else if (c <= ' ' || c >= 0x7f) { if (!r.empty() && r.back() != '-') r += '-'; }
        else r += static_cast<char>(c);
    }
    return r;
}

inline std::string exc_key(const std::string& end) {      // "EXC ns::type: message" -> "type:message" (numbers -> N)
    std::string t = end.compare(0, 4, "EXC ") == 0 ? end.substr(4) : end;
    size_t colon = t.find(": ");
    std::string type = t.substr(0, colon), msg = colon == std::string::npos ? "" : t.substr(colon + 2);
    size_t ns = type.rfind("::");
    if (ns != std::string::npos) type = type.substr(ns + 2);
    return keyify(type + ":" + msg);
}

inline std::string exc_type(const std::string& end) {     // "EXC ns::type: message" -> "type"
    std::string k = exc_key(end);
    return k.substr(0, k.find(':'));
}

// what differs between the unsplit baseline and a split run, as a class-key fragment; with_types adds the
// exception types (the texts depend on the individual input and stay in the detail)
inline std::string diff_kind(const Result& base, const Result& r, bool with_types = true) {
    if (base.ok() && !r.ok()) return "accepted-whole-rejected-in-pieces" + (with_types ? "[" + exc_type(r.end) + "]" : std::string());
    if (!base.ok() && r.ok()) return "rejected-whole" + (with_types ? "[" + exc_type(base.end) + "]" : std::string()) + "-accepted-in-pieces";
    if (base.end != r.end) return "error-differs" + (with_types ? "[" + exc_type(base.end) + "->" + exc_type(r.end) + "]" : std::string());
    if (base.objs.size() != r.objs.size()) return std::string(base.ok() ? "" : "before-error-") + "object-count-differs";
    if (base.objs != r.objs) return std::string(base.ok() ? "" : "before-error-") + "objects-differ";
    if (base.header != r.header) return "header-differs";
    return "same";
}

// Class key of a difference. Normally <fmt>/<what differs, with the exception types>/<input class>/<where>: where =
// the structural position of the smallest failing cut, or the kind of real file. o5m inputs in which the end of
// the file comes less than 10 bytes after some data set's type byte are one class of their own whatever the cut
// position and the wording of the error: there the parser's refill (ensure_bytes_available(max_varint_length)) runs
// into the end of the input, which has nothing to do with where the cut is - a cut only changes how the buffer is
// aligned at that moment.
static const char* const O5M_SHORT_TAIL = "eof-within-9-bytes-after-a-dataset-type-byte";

inline std::string class_key(const std::string& fmt, bool o5m_short_tail, const Result& base, const Result& r, const std::string& input_class, const std::string& where) {
    if (o5m_short_tail) return fmt + "/" + diff_kind(base, r, false) + "/" + O5M_SHORT_TAIL;
    return fmt + "/" + diff_kind(base, r) + "/" + input_class + "/" + where;
}

// ------------------------------------------------------------------------------------------------
// segmentations: a sorted list of cut offsets 0 < c < n; chunk i is [c[i-1], c[i])
using Cuts = std::vector<uint32_t>;

static const uint32_t UNIFORM_SIZES[] = {1, 2, 3, 4, 5, 7, 8, 11, 13, 16, 23, 32, 47, 64, 97, 128, 191, 256, 383, 512, 767, 1024};
static const int AROUND_W = 3;      // "1-byte chunks around p": cuts p-3 .. p+3

inline Cuts cuts_uniform(uint32_t n, uint32_t k) { Cuts c; for (uint32_t p = k; p < n; p += k) c.push_back(p); return c; }
inline Cuts cuts_around(uint32_t n, uint32_t p) {
    Cuts c;
    for (int64_t q = static_cast<int64_t>(p) - AROUND_W; q <= static_cast<int64_t>(p) + AROUND_W; ++q) if (q > 0 && q < n) c.push_back(static_cast<uint32_t>(q));
    return c;
}

inline std::string cuts_text(const Cuts& c) {
    std::string s;
    for (size_t i = 0; i < c.size(); ++i) { if (i) s += ","; s += std::to_string(c[i]); }
    return s;
}

}  // namespace c06

#endif
