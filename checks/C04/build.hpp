// C04: drive the *real* builder interface from a model item. Several call styles so that all public
// overloads get exercised. Nothing here keeps a pointer/reference into the target buffer across calls.
#ifndef C04_BUILD_HPP
#define C04_BUILD_HPP

#include "model.hpp"

#include <osmium/builder/attr.hpp>
#include <osmium/builder/osm_object_builder.hpp>
#include <osmium/memory/buffer.hpp>

namespace ob = osmium::builder;
using osmium::memory::Buffer;

static Buffer* SRC = nullptr;                      // read-only source buffer holding SRC_ITEMS
static volatile uint32_t* g_reloc_in_comment = nullptr;   // set when the buffer relocated inside add_comment()

struct BufSig { const unsigned char* d; size_t cap; bool nested_first; const void* next; };
static BufSig sig(const Buffer& b) { return BufSig{b.m_data, b.m_capacity, b.m_next_buffer != nullptr, b.m_next_buffer.get()}; }
static bool operator!=(const BufSig& a, const BufSig& b) { return a.d != b.d || a.cap != b.cap || a.next != b.next; }

static osmium::Location loc(int32_t x, int32_t y) { return osmium::Location{x, y}; }

template <class TL> static void fill_tags(TL& tl, const MSub& s, int style) {
    for (size_t i = 0; i < s.tags.size(); ++i) {
        const MTag& t = s.tags[i];
        switch ((i + static_cast<size_t>(style)) % 4) {
            case 0: tl.add_tag(t.k.c_str(), t.v.c_str()); break;
            case 1: tl.add_tag(t.k, t.v); break;
            case 2: tl.add_tag(t.k.data(), t.k.size(), t.v.data(), t.v.size()); break;
            default: tl.add_tag(std::pair<const char*, const char*>{t.k.c_str(), t.v.c_str()}); break;
        }
    }
}
template <class NL> static void fill_refs(NL& nl, const MSub& s, int style) {
    for (size_t i = 0; i < s.refs.size(); ++i) {
        const MRef& r = s.refs[i];
        if ((i + static_cast<size_t>(style)) % 2) nl.add_node_ref(osmium::NodeRef{r.ref, loc(r.x, r.y)});
        else nl.add_node_ref(r.ref, loc(r.x, r.y));
    }
}
static void fill_members(ob::RelationMemberListBuilder& ml, const MSub& s, int style) {
    for (size_t i = 0; i < s.members.size(); ++i) {
        const MMember& m = s.members[i];
        const osmium::OSMObject* full = m.full >= 0 ? &SRC->get<osmium::OSMObject>(SRC_OFF[m.full]) : nullptr;   // lives in another buffer
        switch ((i + static_cast<size_t>(style)) % 3) {
            case 0: ml.add_member(m.type, m.ref, m.role.c_str(), full); break;
            case 1: ml.add_member(m.type, m.ref, m.role, full); break;
            default: ml.add_member(m.type, m.ref, m.role.data(), m.role.size(), full); break;
        }
    }
}
static void fill_comments(ob::ChangesetDiscussionBuilder& d, Buffer& buf, const MSub& s, int style) {
    for (size_t i = 0; i < s.comments.size(); ++i) {
        const MComment& c = s.comments[i];
        const BufSig before = sig(buf);
        d.add_comment(osmium::Timestamp{c.date}, c.uid, c.user.c_str());
        if (sig(buf) != before && g_reloc_in_comment) *g_reloc_in_comment = 1;
        if ((i + static_cast<size_t>(style)) % 2) d.add_comment_text(c.text.c_str());
        else d.add_comment_text(c.text);
    }
}

static void build_toplist(Buffer& buf, const MSub& s, int style);

// one sub-list below an open parent builder
static void build_sub(ob::Builder& parent, Buffer& buf, const MSub& s, int style) {
    if (style == 3) {
        // the list is built stand-alone in a scratch buffer and COPIED into the open object with Builder::add_item() - the way
        // tag lists are taken over from one object into another (sizes of the parents must grow by the padded size of the copy)
        Buffer tmp{2048, Buffer::auto_grow::yes};
        build_toplist(tmp, s, 1);
        tmp.commit();
        parent.add_item(tmp.get<osmium::memory::Item>(0));
        return;
    }
    const bool ctor_ref = style != 0;    // the two sub-builder constructors
    switch (s.type) {
        case IT::tag_list:
            if (ctor_ref) { ob::TagListBuilder b{parent}; fill_tags(b, s, style); } else { ob::TagListBuilder b{buf, &parent}; fill_tags(b, s, style); }
            break;
        case IT::way_node_list:
            if (ctor_ref) { ob::WayNodeListBuilder b{parent}; fill_refs(b, s, style); } else { ob::WayNodeListBuilder b{buf, &parent}; fill_refs(b, s, style); }
            break;
        case IT::outer_ring:
            if (ctor_ref) { ob::OuterRingBuilder b{parent}; fill_refs(b, s, style); } else { ob::OuterRingBuilder b{buf, &parent}; fill_refs(b, s, style); }
            break;
        case IT::inner_ring:
            if (ctor_ref) { ob::InnerRingBuilder b{parent}; fill_refs(b, s, style); } else { ob::InnerRingBuilder b{buf, &parent}; fill_refs(b, s, style); }
            break;
        case IT::relation_member_list:
            if (ctor_ref) { ob::RelationMemberListBuilder b{parent}; fill_members(b, s, style); } else { ob::RelationMemberListBuilder b{buf, &parent}; fill_members(b, s, style); }
            break;
        case IT::changeset_discussion:
            if (ctor_ref) { ob::ChangesetDiscussionBuilder b{parent}; fill_comments(b, buf, s, style); } else { ob::ChangesetDiscussionBuilder b{buf, &parent}; fill_comments(b, buf, s, style); }
            break;
        default: break;
    }
}

static void set_loc(ob::NodeBuilder& b, const MItem& m) { b.set_location(loc(m.lon, m.lat)); }
template <class TB> static void set_loc(TB&, const MItem&) {}

// convenience shortcuts of the typed builders (initializer lists), used by style 2 when the shape allows
template <class TB> static bool shortcut(TB& b, const MSub& s) {
    if (s.type == IT::tag_list && s.tags.size() == 2) { b.add_tags({{s.tags[0].k.c_str(), s.tags[0].v.c_str()}, {s.tags[1].k.c_str(), s.tags[1].v.c_str()}}); return true; }
    return false;
}
static bool shortcut(ob::WayBuilder& b, const MSub& s) {
    if (s.type == IT::way_node_list && s.refs.size() == 2) {
        b.add_node_refs({osmium::NodeRef{s.refs[0].ref, loc(s.refs[0].x, s.refs[0].y)}, osmium::NodeRef{s.refs[1].ref, loc(s.refs[1].x, s.refs[1].y)}});
        return true;
    }
    if (s.type == IT::tag_list && s.tags.size() == 2) { b.add_tags({{s.tags[0].k.c_str(), s.tags[0].v.c_str()}, {s.tags[1].k.c_str(), s.tags[1].v.c_str()}}); return true; }
    return false;
}

template <class TB> static void build_object(Buffer& buf, const MItem& m, int style) {
    TB b{buf};
    auto header = [&] {
        b.set_id(m.id).set_version(m.version).set_changeset(m.cs).set_uid(m.uid).set_timestamp(osmium::Timestamp{m.ts}).set_deleted(m.deleted);
        set_loc(b, m);
    };
    if (style != 1) header();           // style 1 writes the header fields after all sub-items (object() must follow relocation)
    switch (style) {
        case 0: b.set_user(m.user.data(), static_cast<osmium::string_size_type>(m.user.size())); break;
        case 1: b.set_user(m.user); break;
        default: if (!m.user.empty()) b.set_user(m.user.c_str()); break;   // no set_user() call at all for an empty user
    }
    for (const auto& s : m.subs) { if (style == 2 && shortcut(b, s)) continue; build_sub(b, buf, s, style); }
    if (style == 1) header();
    if (m.removed) b.set_removed(true);
}

static void build_changeset(Buffer& buf, const MItem& m, int style) {
    ob::ChangesetBuilder b{buf};
    auto header = [&] {
        b.set_id(m.id).set_uid(m.uid).set_created_at(osmium::Timestamp{m.created}).set_closed_at(osmium::Timestamp{m.closed})
         .set_num_changes(m.nchanges).set_num_comments(m.ncomments);
        b.set_bounds(osmium::Box{loc(m.bx1, m.by1), loc(m.bx2, m.by2)});
    };
    if (style != 1) header();
    switch (style) {
        case 0: b.set_user(m.user.data(), static_cast<osmium::string_size_type>(m.user.size())); break;
        case 1: b.set_user(m.user); break;
        default: if (!m.user.empty()) b.set_user(m.user.c_str()); break;
    }
    for (const auto& s : m.subs) build_sub(b, buf, s, style);
    if (style == 1) header();
    if (m.removed) b.set_removed(true);
}

// a bare list as a top-level item (builder without parent)
static void build_toplist(Buffer& buf, const MSub& s, int style) {
    switch (s.type) {
        case IT::tag_list: { ob::TagListBuilder b{buf}; fill_tags(b, s, style); break; }
        case IT::way_node_list: { ob::WayNodeListBuilder b{buf}; fill_refs(b, s, style); break; }
        case IT::outer_ring: { ob::OuterRingBuilder b{buf}; fill_refs(b, s, style); break; }
        case IT::inner_ring: { ob::InnerRingBuilder b{buf}; fill_refs(b, s, style); break; }
        case IT::relation_member_list: { ob::RelationMemberListBuilder b{buf}; fill_members(b, s, style); break; }
        case IT::changeset_discussion: { ob::ChangesetDiscussionBuilder b{buf}; fill_comments(b, buf, s, style); break; }
        default: break;
    }
}

// explicit builders; leaves the item uncommitted
static void build_manual(Buffer& buf, const MItem& m, int style) {
    switch (m.type) {
        case IT::node: build_object<ob::NodeBuilder>(buf, m, style); break;
        case IT::way: build_object<ob::WayBuilder>(buf, m, style); break;
        case IT::relation: build_object<ob::RelationBuilder>(buf, m, style); break;
        case IT::area: build_object<ob::AreaBuilder>(buf, m, style); break;
        case IT::changeset: build_changeset(buf, m, style); break;
        default: build_toplist(buf, m.subs[0], style); break;
    }
}

// attr.hpp interface (commits by itself, returns the commit offset). Supported shapes:
//   node{tags}  way{tags,nodes}  relation{members}  changeset{tags,discussion}  area{tags,outer,inner}  tags  nodes
static bool attr_supported(const MItem& m) {
    auto shape = [&](std::initializer_list<IT> l) { if (m.subs.size() != l.size()) return false; size_t i = 0; for (IT t : l) if (m.subs[i++].type != t) return false; return true; };
    if (m.removed) return false;
    switch (m.type) {
        case IT::node: return shape({IT::tag_list});
        case IT::way: return shape({IT::tag_list, IT::way_node_list});
        case IT::relation: { if (!shape({IT::relation_member_list})) return false; for (auto& x : m.subs[0].members) if (x.full >= 0) return false; return true; }
        case IT::changeset: return shape({IT::tag_list, IT::changeset_discussion});
        case IT::area: return shape({IT::tag_list, IT::outer_ring, IT::inner_ring});
        case IT::tag_list: return !m.subs[0].tags.empty();
        case IT::way_node_list: return !m.subs[0].refs.empty();
        default: return false;
    }
}

static size_t build_attr(Buffer& buf, const MItem& m) {
    using namespace osmium::builder::attr;   // NOLINT
    std::vector<std::pair<const char*, const char*>> tg;
    std::vector<osmium::NodeRef> n1, n2;
    std::vector<member_type> mem;
    std::vector<comment_type> com;
    for (const auto& s : m.subs) {
        for (const auto& t : s.tags) tg.emplace_back(t.k.c_str(), t.v.c_str());
        for (const auto& r : s.refs) (s.type == IT::inner_ring ? n2 : n1).emplace_back(r.ref, loc(r.x, r.y));
        for (const auto& x : s.members) mem.emplace_back(x.type, x.ref, x.role.c_str());
        for (const auto& c : s.comments) com.emplace_back(osmium::Timestamp{c.date}, c.uid, c.user.c_str(), c.text.c_str());
    }
    const osmium::Timestamp ts{m.ts};
    switch (m.type) {
        case IT::node:
            return ob::add_node(buf, _id(m.id), _version(m.version), _cid(m.cs), _uid(m.uid), _timestamp(ts), _deleted(m.deleted),
                                _location(loc(m.lon, m.lat)), _user(m.user.c_str()), _tags(tg));
        case IT::way:
            return ob::add_way(buf, _id(m.id), _version(m.version), _cid(m.cs), _uid(m.uid), _timestamp(ts), _deleted(m.deleted),
                               _user(m.user.c_str()), _tags(tg), _nodes(n1));
        case IT::relation:
            return ob::add_relation(buf, _id(m.id), _version(m.version), _cid(m.cs), _uid(m.uid), _timestamp(ts), _deleted(m.deleted),
                                    _user(m.user.c_str()), _members(mem));
        case IT::area:
            return ob::add_area(buf, _id(m.id), _version(m.version), _cid(m.cs), _uid(m.uid), _timestamp(ts), _deleted(m.deleted),
                                _user(m.user.c_str()), _tags(tg), _outer_ring(n1), _inner_ring(n2));
        case IT::changeset: {
            const BufSig before = sig(buf);
            size_t r = ob::add_changeset(buf, _cid(static_cast<osmium::changeset_id_type>(m.id)), _uid(m.uid), _created_at(osmium::Timestamp{m.created}),
                                         _closed_at(osmium::Timestamp{m.closed}), _num_changes(m.nchanges), _num_comments(m.ncomments),
                                         _user(m.user.c_str()), _tags(tg), _comments(com));
            (void)before;
            return r;
        }
        case IT::tag_list: return ob::add_tag_list(buf, _tags(tg));
        case IT::way_node_list: return ob::add_way_node_list(buf, _nodes(n1));
        default: return 0;
    }
}

#endif
