// C04 reference model: item descriptions (what was passed to the builders), their expected sizes and
// their expected flattened field lists. Boring on purpose; knows nothing about how the library builds.
#ifndef C04_MODEL_HPP
#define C04_MODEL_HPP

#include <osmium/osm.hpp>
#include <osmium/osm/changeset.hpp>

#include <cstdint>
#include <cstdio>
#include <string>
#include <utility>
#include <vector>

using IT = osmium::item_type;

// Flattened description of one top-level item: values in a fixed order. Fast mode keeps one blob (values
// joined by 0x1f) that is compared as a whole; detailed mode (second pass after a mismatch) keeps
// (field path, value) pairs so that the first differing field can be named.
struct Flat {
    std::string blob;
    std::vector<std::pair<std::string, std::string>> items;
};
static bool g_detailed = false;
static inline void F(Flat& f, const std::string& p, const char* field, const std::string& v) {
    if (g_detailed) f.items.emplace_back(p + field, v); else { f.blob += v; f.blob += '\x1f'; }
}
static inline void F(Flat& f, const std::string& p, const char* field, long long v) {
    if (g_detailed) { f.items.emplace_back(p + field, std::to_string(v)); return; }
    char b[32]; int n = snprintf(b, sizeof b, "%lld\x1f", v); f.blob.append(b, static_cast<size_t>(n));
}

struct MTag { std::string k, v; };
struct MRef { int64_t ref; int32_t x, y; };
struct MMember { int64_t ref; IT type; std::string role; int full; };   // full = index into SRC_ITEMS or -1
struct MComment { uint32_t date, uid; std::string user, text; };
struct MSub {            // one list item (tag list, node list, member list, discussion)
    IT type = IT::tag_list;
    std::vector<MTag> tags;
    std::vector<MRef> refs;
    std::vector<MMember> members;
    std::vector<MComment> comments;
};
struct MItem {           // one top-level item: an OSM object, a changeset, or a bare list (then subs.size()==1)
    IT type = IT::node;
    bool removed = false;
    int64_t id = 0;
    uint32_t version = 0, cs = 0, uid = 0, ts = 0;
    bool deleted = false;
    int32_t lon = osmium::Location::undefined_coordinate, lat = osmium::Location::undefined_coordinate;
    uint32_t created = 0, closed = 0, nchanges = 0, ncomments = 0;
    int32_t bx1 = osmium::Location::undefined_coordinate, by1 = osmium::Location::undefined_coordinate,
            bx2 = osmium::Location::undefined_coordinate, by2 = osmium::Location::undefined_coordinate;
    std::string user;
    std::vector<MSub> subs;
    mutable std::string blob_cache[2];   // expected fast-mode blob for removed = 0 / 1 (filled on first use)
};
// an item in a model buffer: what was built (immutable, shared) + the one bit that can change afterwards
struct MI { const MItem* m; bool removed; };

static std::vector<MItem> SRC_ITEMS;     // contents of the read-only source buffer (full members, add_item, add_buffer)
static std::vector<size_t> SRC_OFF;

static inline bool is_list(IT t) {
    return t == IT::tag_list || t == IT::way_node_list || t == IT::relation_member_list || t == IT::outer_ring ||
           t == IT::inner_ring || t == IT::changeset_discussion;
}
static inline bool is_entity(IT t) { return t == IT::node || t == IT::way || t == IT::relation || t == IT::area || t == IT::changeset; }

static inline const char* tname(IT t) {
    switch (t) {
        case IT::node: return "node"; case IT::way: return "way"; case IT::relation: return "relation";
        case IT::area: return "area"; case IT::changeset: return "changeset"; case IT::tag_list: return "tags";
        case IT::way_node_list: return "nodes"; case IT::relation_member_list: return "members";
        case IT::outer_ring: return "outer"; case IT::inner_ring: return "inner";
        case IT::changeset_discussion: return "discussion"; default: return "unknown";
    }
}

static inline size_t pad8(size_t n) { return (n + 7) & ~static_cast<size_t>(7); }

static size_t item_size(const MItem& m);

// unpadded byte size of a list item: 8-byte header + members, each member padded as the format says
static size_t sub_size(const MSub& s) {
    size_t n = sizeof(osmium::memory::Item);
    switch (s.type) {
        case IT::tag_list: for (const auto& t : s.tags) n += t.k.size() + 1 + t.v.size() + 1; break;
        case IT::way_node_list: case IT::outer_ring: case IT::inner_ring: n += sizeof(osmium::NodeRef) * s.refs.size(); break;
        case IT::relation_member_list:
            for (const auto& m : s.members) {
                n += pad8(sizeof(osmium::RelationMember) + m.role.size() + 1);
                if (m.full >= 0) n += pad8(item_size(SRC_ITEMS[m.full]));
            }
            break;
        case IT::changeset_discussion:
            for (const auto& c : s.comments) n += pad8(sizeof(osmium::ChangesetComment) + c.user.size() + 1 + c.text.size() + 1);
            break;
        default: break;
    }
    return n;
}

static size_t item_size(const MItem& m) {
    if (is_list(m.type)) return sub_size(m.subs[0]);
    size_t n;
    if (m.type == IT::changeset) n = sizeof(osmium::Changeset) + pad8(m.user.size() + 1);
    else n = pad8((m.type == IT::node ? sizeof(osmium::Node) : sizeof(osmium::OSMObject)) + sizeof(osmium::string_size_type) + m.user.size() + 1);
    for (const auto& s : m.subs) n += pad8(sub_size(s));
    return n;
}

static void flat_item(Flat& f, const std::string& p0, const MItem& m, bool removed);

static void flat_list(Flat& f, const std::string& p, const MSub& s, bool removed) {
    F(f, p, ".size", static_cast<long long>(sub_size(s)));
    F(f, p, ".removed", removed);
    switch (s.type) {
        case IT::tag_list:
            for (const auto& t : s.tags) { F(f, p, ".key", t.k); F(f, p, ".value", t.v); }
            F(f, p, ".count", static_cast<long long>(s.tags.size()));
            break;
        case IT::way_node_list: case IT::outer_ring: case IT::inner_ring:
            for (const auto& r : s.refs) { F(f, p, ".ref", r.ref); F(f, p, ".x", r.x); F(f, p, ".y", r.y); }
            F(f, p, ".count", static_cast<long long>(s.refs.size()));
            break;
        case IT::relation_member_list:
            for (const auto& m : s.members) {
                F(f, p, ".member.ref", m.ref); F(f, p, ".member.type", static_cast<int>(m.type));
                F(f, p, ".member.role", m.role); F(f, p, ".member.full", m.full >= 0);
                if (m.full >= 0) flat_item(f, p + ".member.", SRC_ITEMS[m.full], false);
            }
            F(f, p, ".count", static_cast<long long>(s.members.size()));
            break;
        case IT::changeset_discussion:
            for (const auto& c : s.comments) {
                F(f, p, ".comment.date", c.date); F(f, p, ".comment.uid", c.uid);
                F(f, p, ".comment.user", c.user); F(f, p, ".comment.text", c.text);
            }
            F(f, p, ".count", static_cast<long long>(s.comments.size()));
            break;
        default: break;
    }
}

static void flat_item(Flat& f, const std::string& p0, const MItem& m, bool removed) {
    const std::string p = p0 + tname(m.type);
    if (is_list(m.type)) { flat_list(f, p, m.subs[0], removed); return; }
    F(f, p, ".size", static_cast<long long>(item_size(m)));
    F(f, p, ".removed", removed);
    if (m.type == IT::changeset) {
        F(f, p, ".id", m.id); F(f, p, ".uid", m.uid); F(f, p, ".created_at", m.created); F(f, p, ".closed_at", m.closed);
        F(f, p, ".num_changes", m.nchanges); F(f, p, ".num_comments", m.ncomments);
        F(f, p, ".bounds", std::to_string(m.bx1) + "," + std::to_string(m.by1) + "," + std::to_string(m.bx2) + "," + std::to_string(m.by2));
    } else {
        F(f, p, ".id", m.id); F(f, p, ".version", m.version); F(f, p, ".changeset", m.cs); F(f, p, ".uid", m.uid);
        F(f, p, ".timestamp", m.ts); F(f, p, ".deleted", m.deleted);
        if (m.type == IT::node) F(f, p, ".location", std::to_string(m.lon) + "," + std::to_string(m.lat));
    }
    F(f, p, ".user", m.user);
    for (const auto& s : m.subs) flat_list(f, p + "." + tname(s.type), s, false);
    F(f, p, ".nsubs", static_cast<long long>(m.subs.size()));
}

// ---- small constructors for the alphabet
static std::string mk(size_t len, int seed) {
    std::string s(len, 'a');
    for (size_t i = 0; i < len; ++i) s[i] = static_cast<char>('a' + (seed * 7 + static_cast<int>(i)) % 26);
    return s;
}
static MItem m_obj(IT t, int id, size_t ulen) {
    MItem m; m.type = t; m.id = (id & 1) ? -id : id; m.version = static_cast<uint32_t>(id % 7 + 1); m.cs = 1000u + id; m.uid = 50u + id;
    m.ts = 1500000000u + id; m.deleted = (id & 2) != 0;
    if (t == IT::node) { m.lon = 10 * id + 1; m.lat = -(10 * id + 2); }
    m.user = mk(ulen, id);
    return m;
}
static MItem m_cset(int id, size_t ulen) {
    MItem m; m.type = IT::changeset; m.id = id; m.uid = 60u + id; m.created = 1400000000u + id; m.closed = m.created + 3600;
    m.nchanges = 3u + id; m.ncomments = 0; m.bx1 = id; m.by1 = -id; m.bx2 = id + 100; m.by2 = id + 200; m.user = mk(ulen, id + 3);
    return m;
}
static MSub m_tags(std::vector<std::pair<int, int>> lens, int seed) {
    MSub s; s.type = IT::tag_list; int i = 0;
    for (auto l : lens) { s.tags.push_back(MTag{mk(l.first, seed + i), mk(l.second, seed + i + 11)}); ++i; }
    return s;
}
static MSub m_refs(IT t, int n, int seed) {
    MSub s; s.type = t;
    for (int i = 0; i < n; ++i) s.refs.push_back(MRef{seed * 100 + i, (i & 1) ? osmium::Location::undefined_coordinate : seed + i, (i & 1) ? osmium::Location::undefined_coordinate : -seed - i});
    return s;
}
static MSub m_members(std::vector<std::pair<int, int>> role_len_and_full, int seed) {
    MSub s; s.type = IT::relation_member_list; int i = 0;
    for (auto m : role_len_and_full) {
        IT t = m.second >= 0 ? SRC_ITEMS[m.second].type : static_cast<IT>(1 + (seed + i) % 3);
        int64_t ref = m.second >= 0 ? SRC_ITEMS[m.second].id : seed * 10 + i;
        s.members.push_back(MMember{ref, t, mk(m.first, seed + i), m.second}); ++i;
    }
    return s;
}
static MSub m_disc(std::vector<std::pair<int, int>> user_text_len, int seed) {
    MSub s; s.type = IT::changeset_discussion; int i = 0;
    for (auto c : user_text_len) { s.comments.push_back(MComment{1450000000u + seed + i, 70u + i, mk(c.first, seed + i), mk(c.second, seed + i + 5)}); ++i; }
    return s;
}
static MItem m_list(const MSub& s) { MItem m; m.type = s.type; m.subs.push_back(s); return m; }

#endif
