"""C04 - buffers and builders keep objects intact across growth, commit, rollback, purge (DESIGN.md section 5, C04)."""
LEVEL = "model_checking"
RULE = ("explicit-state breadth-first search over operation histories on real osmium::memory::Buffer objects, one search per "
        "configuration (initial capacity 64..640 step 8) x (auto_grow no|yes|internal): the state behind a history is reached by "
        "replaying it on fresh buffers (A under test, B for swap/move, a read-only source buffer for add_item/push_back/add_buffer/"
        "full members); after EVERY operation both buffers (nested chain oldest first + committed + uncommitted region) are walked "
        "byte-wise with bounds checks and compared field by field with a reference model (vector of item descriptions with "
        "independently computed sizes); states are de-duplicated by the bytes of [0,written) (two indeterminate struct tail-padding "
        "bytes per relation member / changeset comment masked) + written/committed/capacity/mode + nested chain of both buffers. "
        "Alphabet: object/changeset/list builders (explicit sub-builders in three call styles, attr.hpp interface) with user, tag, "
        "role, comment lengths around every padding boundary, commit, rollback, clear, add_buffer, push_back, add_item, swap, move, "
        "set_removed, purge_removed with/without callback, get_last_nested. Every history is one evaluation and runs as its own "
        "rank in a forked child (ASan, NDEBUG and assert builds). Extra parts: purge = all item sequences x all removed masks; "
        "cbuf = CallbackBuffer histories. distinct_nontrivial = histories (distinct by history x capacity x mode) in which at least "
        "one growth/relocation happened (capacity changed or nested chain grew) + purge cases that moved an item + CallbackBuffer "
        "histories with a delivery. states = distinct canonical keys, transitions = operations applied to explored states.")
DEADLINE = {"quick": 240, "thorough": 1400}
FLAGS = ["-fno-access-control"]
SRCS = ["h04.cpp"]


def build(ctx):
    exes = ctx.build_many([
        dict(name="h04", sources=SRCS, flags=FLAGS, asan=True, ndebug=True, opt="-O1"),
        dict(name="h04dbg", sources=SRCS, flags=FLAGS, asan=True, ndebug=False, opt="-O1"),
    ])
    return {"h04": exes[0], "h04dbg": exes[1]}


# bulk runs: unsymbolized, fast-unwound ASan reports (the harness re-runs one case per distinct crash site with symbolization)
ENV = {"ASAN_OPTIONS": "detect_leaks=0:abort_on_error=0:allocator_may_return_null=1:symbolize=0:fast_unwind_on_fatal=1:malloc_context_size=0"}


def run(ctx):
    exes = build(ctx)
    if getattr(ctx, "build_only", False):
        return
    for name in ("h04", "h04dbg"):
        ctx.run_harness(exes[name], ["--part", "purge"], shards=16, env=ENV)
        ctx.run_harness(exes[name], ["--part", "cbuf"], shards=16, env=ENV)
    for name in ("h04", "h04dbg"):
        ctx.run_harness(exes[name], ["--part", "hist"], shards=16, env=ENV)
    ctx.assume("what purge_removed() does with uncommitted data, growth of a buffer in which the data would have fitted, and the exact "
               "capacity after growth are left open (counted only); where the committed data is split between nested buffers is "
               "not predicted, only that the chain holds the older committed items in order; items passed to add_item/"
               "add_member(full) live in a different buffer than the target")
