// C04: bounds-checked walk over the bytes of a real Buffer producing the same flattened field lists as
// the model, plus a snapshot of one Buffer (nested chain oldest first, committed and uncommitted
// regions, geometry, canonical hash). Reads private fields (-fno-access-control), never writes.
#ifndef C04_WALK_HPP
#define C04_WALK_HPP

#include "model.hpp"

#include <osmium/memory/buffer.hpp>

#include <cstring>

using osmium::memory::Buffer;

struct Walker {
    const unsigned char* base;
    std::vector<size_t>* masks;   // offsets of indeterminate struct tail padding bytes (excluded from the state hash)
};

static bool cstr_ok(const unsigned char* p, size_t n) {   // n bytes including the terminator, no NUL before it
    return n >= 1 && p[n - 1] == 0 && std::strlen(reinterpret_cast<const char*>(p)) == n - 1;
}

static size_t walk_item(Walker& w, size_t off, size_t end, Flat& f, const std::string& p0);

#define STRUCT_FAIL(path, why) do { F(f, (path), ".STRUCT", std::string("\x01") + (why)); return 0; } while (0)

// a list item at [off, ...) inside a region ending at 'end'; returns padded size consumed or 0 on broken structure
static size_t walk_list(Walker& w, size_t off, size_t end, Flat& f, const std::string& pp) {
    if (off % 8 != 0) STRUCT_FAIL(pp + "item", "misaligned offset");
    if (off + 8 > end) STRUCT_FAIL(pp + "item", "header beyond end of region");
    const auto& it = *reinterpret_cast<const osmium::memory::Item*>(w.base + off);
    const size_t sz = it.byte_size(), psz = pad8(sz);
    const IT t = it.type();
    if (!is_list(t)) STRUCT_FAIL(pp + "item", "type " + std::to_string(static_cast<int>(t)) + " where a list item is expected");
    const std::string p = pp + tname(t);
    if (sz < 8 || off + psz > end) STRUCT_FAIL(p, "size " + std::to_string(sz) + " does not fit its region");
    F(f, p, ".size", static_cast<long long>(sz));
    F(f, p, ".removed", it.removed());
    const unsigned char* d = w.base + off;
    size_t pos = 8, count = 0;
    switch (t) {
        case IT::tag_list:
            while (pos < sz) {
                const void* z1 = std::memchr(d + pos, 0, sz - pos);
                if (!z1) STRUCT_FAIL(p, "tag key not terminated inside the list");
                size_t vpos = static_cast<size_t>(static_cast<const unsigned char*>(z1) - d) + 1;
                const void* z2 = vpos < sz ? std::memchr(d + vpos, 0, sz - vpos) : nullptr;
                if (!z2) STRUCT_FAIL(p, "tag value not terminated inside the list");
                F(f, p, ".key", std::string(reinterpret_cast<const char*>(d + pos)));
                F(f, p, ".value", std::string(reinterpret_cast<const char*>(d + vpos)));
                pos = static_cast<size_t>(static_cast<const unsigned char*>(z2) - d) + 1;
                ++count;
            }
            break;
        case IT::way_node_list: case IT::outer_ring: case IT::inner_ring:
            if ((sz - 8) % sizeof(osmium::NodeRef) != 0) STRUCT_FAIL(p, "size is not a whole number of node refs");
            for (; pos < sz; pos += sizeof(osmium::NodeRef), ++count) {
                const auto& nr = *reinterpret_cast<const osmium::NodeRef*>(d + pos);
                F(f, p, ".ref", nr.ref()); F(f, p, ".x", nr.location().x()); F(f, p, ".y", nr.location().y());
            }
            break;
        case IT::relation_member_list:
            while (pos < sz) {
                if (pos + sizeof(osmium::RelationMember) > sz) STRUCT_FAIL(p, "member header beyond end of list");
                const auto& m = *reinterpret_cast<const osmium::RelationMember*>(d + pos);
                const size_t rs = m.m_role_size, msz = pad8(sizeof(osmium::RelationMember) + rs);
                if (rs < 1 || pos + msz > sz) STRUCT_FAIL(p + ".member", "role size " + std::to_string(rs) + " out of range");
                if (!cstr_ok(d + pos + sizeof(osmium::RelationMember), rs)) STRUCT_FAIL(p + ".member", "role not terminated at role size");
                w.masks->push_back(off + pos + 14); w.masks->push_back(off + pos + 15);
                F(f, p, ".member.ref", m.ref()); F(f, p, ".member.type", static_cast<int>(m.type()));
                F(f, p, ".member.role", std::string(m.role())); F(f, p, ".member.full", m.full_member());
                if (m.m_flags > 1) STRUCT_FAIL(p + ".member", "flags " + std::to_string(m.m_flags));
                pos += msz;
                if (m.full_member()) {
                    size_t n = walk_item(w, off + pos, off + sz, f, p + ".member.");
                    if (!n) return 0;
                    pos += n;
                }
                ++count;
            }
            break;
        case IT::changeset_discussion:
            while (pos < sz) {
                if (pos + sizeof(osmium::ChangesetComment) > sz) STRUCT_FAIL(p, "comment header beyond end of list");
                const auto& c = *reinterpret_cast<const osmium::ChangesetComment*>(d + pos);
                const size_t us = c.m_user_size, ts = c.m_text_size;
                if (us < 1 || ts < 1 || ts > sz || pos + pad8(sizeof(osmium::ChangesetComment) + us + ts) > sz)
                    STRUCT_FAIL(p + ".comment", "user size " + std::to_string(us) + " / text size " + std::to_string(ts) + " out of range");
                if (!cstr_ok(d + pos + sizeof(osmium::ChangesetComment), us)) STRUCT_FAIL(p + ".comment", "user not terminated at user size");
                if (!cstr_ok(d + pos + sizeof(osmium::ChangesetComment) + us, ts)) STRUCT_FAIL(p + ".comment", "text not terminated at text size");
                w.masks->push_back(off + pos + 14); w.masks->push_back(off + pos + 15);
                F(f, p, ".comment.date", c.date().seconds_since_epoch()); F(f, p, ".comment.uid", c.uid());
                F(f, p, ".comment.user", std::string(c.user())); F(f, p, ".comment.text", std::string(c.text()));
                pos += pad8(sizeof(osmium::ChangesetComment) + us + ts);
                ++count;
            }
            break;
        default: break;
    }
    if (pos != sz) STRUCT_FAIL(p, "members end at " + std::to_string(pos) + ", list size is " + std::to_string(sz));
    F(f, p, ".count", static_cast<long long>(count));
    return psz;
}

static size_t walk_item(Walker& w, size_t off, size_t end, Flat& f, const std::string& p0) {
    if (off % 8 != 0) STRUCT_FAIL(p0 + "item", "misaligned offset");
    if (off + 8 > end) STRUCT_FAIL(p0 + "item", "header beyond end of region");
    const auto& it = *reinterpret_cast<const osmium::memory::Item*>(w.base + off);
    const size_t sz = it.byte_size(), psz = pad8(sz);
    const IT t = it.type();
    if (is_list(t)) return walk_list(w, off, end, f, p0);
    if (!is_entity(t)) STRUCT_FAIL(p0 + "item", "unknown item type " + std::to_string(static_cast<int>(t)));
    const std::string p = p0 + tname(t);
    if (sz < 8 || off + psz > end) STRUCT_FAIL(p, "size " + std::to_string(sz) + " does not fit its region");
    const unsigned char* d = w.base + off;
    size_t subs_at;
    if (t == IT::changeset) {
        if (sz < sizeof(osmium::Changeset) + 1) STRUCT_FAIL(p, "smaller than a changeset header");
        const auto& c = *reinterpret_cast<const osmium::Changeset*>(d);
        const size_t us = c.user_size();
        if (us < 1 || sizeof(osmium::Changeset) + us > sz) STRUCT_FAIL(p, "user size " + std::to_string(us) + " out of range");
        if (!cstr_ok(d + sizeof(osmium::Changeset), us)) STRUCT_FAIL(p, "user not terminated at user size");
        F(f, p, ".size", static_cast<long long>(sz)); F(f, p, ".removed", it.removed());
        F(f, p, ".id", c.id()); F(f, p, ".uid", c.uid()); F(f, p, ".created_at", c.created_at().seconds_since_epoch());
        F(f, p, ".closed_at", c.closed_at().seconds_since_epoch()); F(f, p, ".num_changes", c.num_changes()); F(f, p, ".num_comments", c.num_comments());
        F(f, p, ".bounds", std::to_string(c.bounds().bottom_left().x()) + "," + std::to_string(c.bounds().bottom_left().y()) + "," +
                            std::to_string(c.bounds().top_right().x()) + "," + std::to_string(c.bounds().top_right().y()));
        F(f, p, ".user", std::string(c.user()));
        subs_at = pad8(sizeof(osmium::Changeset) + us);
        if (subs_at <= sz && c.subitems_position() != d + subs_at) STRUCT_FAIL(p, "library subitems_position disagrees with layout");
    } else {
        const size_t hdr = (t == IT::node ? sizeof(osmium::Node) : sizeof(osmium::OSMObject));
        if (sz < hdr + sizeof(osmium::string_size_type) + 1) STRUCT_FAIL(p, "smaller than an object header");
        const auto& o = *reinterpret_cast<const osmium::OSMObject*>(d);
        const size_t us = o.user_size();
        if (us < 1 || hdr + 2 + us > sz) STRUCT_FAIL(p, "user size " + std::to_string(us) + " out of range");
        if (!cstr_ok(d + hdr + 2, us)) STRUCT_FAIL(p, "user not terminated at user size");
        F(f, p, ".size", static_cast<long long>(sz)); F(f, p, ".removed", it.removed());
        F(f, p, ".id", o.id()); F(f, p, ".version", o.version()); F(f, p, ".changeset", o.changeset()); F(f, p, ".uid", o.uid());
        F(f, p, ".timestamp", o.timestamp().seconds_since_epoch()); F(f, p, ".deleted", o.deleted());
        if (t == IT::node) {
            const auto& n = *reinterpret_cast<const osmium::Node*>(d);
            F(f, p, ".location", std::to_string(n.location().x()) + "," + std::to_string(n.location().y()));
        }
        F(f, p, ".user", std::string(o.user()));
        subs_at = pad8(hdr + 2 + us);
        if (subs_at <= sz && o.subitems_position() != d + subs_at) STRUCT_FAIL(p, "library subitems_position disagrees with layout");
    }
    size_t pos = subs_at, nsubs = 0;
    while (pos < sz) {
        size_t n = walk_list(w, off + pos, off + sz, f, p + ".");
        if (!n) return 0;
        pos += n; ++nsubs;
    }
    if (pos != sz) STRUCT_FAIL(p, "sub-items end at " + std::to_string(pos) + ", object size is " + std::to_string(sz));
    F(f, p, ".nsubs", static_cast<long long>(nsubs));
    return psz;
}

// ---------------------------------------------------------------------------------------------
struct Hash2 {
    uint64_t a = 0xcbf29ce484222325ull, b = 0x84222325cbf29ce4ull;
    void byte(unsigned char c) { a = (a ^ c) * 0x100000001b3ull; b = (b ^ c) * 0x9E3779B97F4A7C15ull; b ^= b >> 29; }
    void bytes(const unsigned char* p, size_t n) { for (size_t i = 0; i < n; ++i) byte(p[i]); }
    void num(uint64_t v) { for (int i = 0; i < 8; ++i) byte(static_cast<unsigned char>(v >> (8 * i))); }
};

struct Snap {
    std::string err;                        // non-empty: broken invariant (the item lists are then not filled)
    std::vector<size_t> chunk_counts;       // items per nested buffer, oldest first
    std::vector<Flat> committed;            // nested (oldest first) ++ current committed region
    std::vector<Flat> uncommitted;          // current [committed, written)
    bool walk_ok = true;                    // false: some item had broken structure (its Flat ends with a STRUCT entry)
    size_t written = 0, committed_b = 0, capacity = 0, nest = 0;
    int mode = 0;
    const unsigned char* data = nullptr;
};

// walk [lo, hi) of one block as a sequence of top-level items
static bool walk_region(const unsigned char* base, size_t lo, size_t hi, std::vector<Flat>& out, std::vector<size_t>& masks) {
    Walker w{base, &masks};
    size_t pos = lo;
    while (pos < hi) {
        out.emplace_back();
        size_t n = walk_item(w, pos, hi, out.back(), "");
        if (!n) return false;
        pos += n;
    }
    return true;
}

static void hash_region(Hash2& h, const unsigned char* base, size_t n, std::vector<size_t>& masks) {
    std::string tmp(reinterpret_cast<const char*>(base), n);
    for (size_t m : masks) if (m < n) tmp[m] = 0;
    h.bytes(reinterpret_cast<const unsigned char*>(tmp.data()), n);
}

static Snap snap(const Buffer& b, Hash2* h) {
    Snap s;
    s.data = b.m_data; s.written = b.m_written; s.committed_b = b.m_committed; s.capacity = b.m_capacity;
    s.mode = static_cast<int>(b.m_auto_grow);
    if (!b.m_data) { s.err = "buffer is invalid (no data)"; return s; }
    if (!b.m_memory || b.m_memory.get() != b.m_data) { s.err = "data pointer is not the owned memory block"; return s; }
    if (!(s.committed_b <= s.written && s.written <= s.capacity)) {
        s.err = "committed=" + std::to_string(s.committed_b) + " written=" + std::to_string(s.written) + " capacity=" + std::to_string(s.capacity) + " violate committed<=written<=capacity";
        return s;
    }
    if (s.committed_b % 8 || s.written % 8 || s.capacity % 8 || s.capacity < 64) {
        s.err = "committed=" + std::to_string(s.committed_b) + " written=" + std::to_string(s.written) + " capacity=" + std::to_string(s.capacity) + " not 8-byte aligned / below minimum";
        return s;
    }
    if (b.committed() != s.committed_b || b.written() != s.written || b.capacity() != s.capacity) { s.err = "accessors disagree with fields"; return s; }
    std::vector<const Buffer*> chain;
    for (const Buffer* n = b.m_next_buffer.get(); n; n = n->m_next_buffer.get()) { chain.push_back(n); if (chain.size() > 64) { s.err = "nested chain longer than 64"; return s; } }
    s.nest = chain.size();
    if (b.has_nested_buffers() != (s.nest > 0)) { s.err = "has_nested_buffers() disagrees with the chain"; return s; }
    for (size_t i = chain.size(); i-- > 0;) {   // oldest first
        const Buffer* n = chain[i];
        if (!n->m_data || n->m_committed != n->m_written || n->m_committed > n->m_capacity || n->m_committed % 8) { s.err = "nested buffer geometry broken"; return s; }
        std::vector<size_t> masks; size_t before = s.committed.size();
        if (!walk_region(n->m_data, 0, n->m_committed, s.committed, masks)) s.walk_ok = false;
        s.chunk_counts.push_back(s.committed.size() - before);
        if (h) { h->num(n->m_committed); h->num(n->m_capacity); hash_region(*h, n->m_data, n->m_committed, masks); }
        if (!s.walk_ok) return s;
    }
    std::vector<size_t> masks;
    if (!walk_region(b.m_data, 0, s.committed_b, s.committed, masks)) { s.walk_ok = false; return s; }
    if (!walk_region(b.m_data, s.committed_b, s.written, s.uncommitted, masks)) { s.walk_ok = false; return s; }
    if (h) { h->num(s.written); h->num(s.committed_b); h->num(s.capacity); h->num(s.mode); h->num(s.nest); hash_region(*h, b.m_data, s.written, masks); }
    return s;
}

// compare walked items with the model's. Fast mode: whole-blob comparison, no diagnostics. Detailed mode
// (g_detailed): names the first differing field in 'path' and describes it in 'detail'.
static bool same_items(const std::vector<Flat>& got, const std::vector<MI>& exp, const char* region, std::string& path, std::string& detail) {
    for (size_t i = 0; i < exp.size() || i < got.size(); ++i) {
        if (i >= got.size() || i >= exp.size()) {
            path = "item-count";
            detail = std::string(region) + ": " + std::to_string(got.size()) + " item(s) in the buffer, model has " + std::to_string(exp.size());
            return false;
        }
        if (!g_detailed) {
            std::string& eb = exp[i].m->blob_cache[exp[i].removed];
            if (eb.empty()) { Flat t; flat_item(t, "", *exp[i].m, exp[i].removed); eb = t.blob; }
            if (eb != got[i].blob) return false;
            continue;
        }
        Flat e; flat_item(e, "", *exp[i].m, exp[i].removed);
        const auto& ei = e.items; const auto& g = got[i].items;
        for (size_t k = 0; k < ei.size() || k < g.size(); ++k) {
            if (k < ei.size() && k < g.size() && ei[k] == g[k]) continue;
            const std::string ep = k < ei.size() ? ei[k].first : "(end)", gp = k < g.size() ? g[k].first : "(end)";
            path = (k < g.size() && gp.size() > 7 && gp.compare(gp.size() - 7, 7, ".STRUCT") == 0) ? gp : (k < ei.size() ? ep : gp);
            detail = std::string(region) + " item #" + std::to_string(i) + " field #" + std::to_string(k) + ": model " + ep + "='" + (k < ei.size() ? ei[k].second : "") +
                     "', buffer " + gp + "='" + (k < g.size() ? g[k].second : "") + "'";
            return false;
        }
    }
    return true;
}

// snapshot + comparison of one buffer with model lists; on mismatch a second, detailed pass names the field
static bool buffer_matches(const Buffer& b, const std::vector<MI>& com, const std::vector<MI>& unc, Hash2* h, Snap& s, std::string& path, std::string& detail) {
    s = snap(b, h);
    if (!s.err.empty()) { path = "geometry"; detail = s.err; return false; }
    if (same_items(s.committed, com, "committed", path, detail) && same_items(s.uncommitted, unc, "uncommitted", path, detail)) return true;
    g_detailed = true;
    Snap d = snap(b, nullptr);
    bool ok = same_items(d.committed, com, "committed", path, detail) && same_items(d.uncommitted, unc, "uncommitted", path, detail);
    g_detailed = false;
    if (ok) { path = "fast-and-detailed-pass-disagree"; detail = "internal"; }
    return false;
}

#endif
