// C04 - buffers and builders keep objects intact across growth, commit, rollback, purge.
//
// Explicit-state search: for every configuration (initial capacity 64..640 step 8) x (auto_grow no|yes|internal)
// a breadth-first search over operation histories; the state behind a history is reached by replaying the
// history on fresh real Buffers (exec.hpp), the reference model (model.hpp) is compared after every
// operation, and states are de-duplicated by a canonical key (bytes of [0,written) with the two
// indeterminate struct tail-padding bytes masked + written/committed/capacity/mode + nested chain, for
// both buffers). Every single history runs as its own rank inside benum::run_isolated, so a history that
// kills the process (ASan report, assertion) is attributed exactly and the search continues behind it.
// All search state (frontier, visited set) lives in shared memory and survives a dying child.
//   --part hist   the history search          --part purge  all removed-masks over item sequences
//   --part cbuf   CallbackBuffer histories
#include <benum/benum.hpp>

#include "exec.hpp"

#include <osmium/memory/callback_buffer.hpp>

#include <algorithm>
#include <deque>
#include <map>

using benum::Args;
static benum::Counters C;

static const char* const STALE_KEY = "asan/heap-use-after-free@osmium::builder::ChangesetDiscussionBuilder::add_text/grow-inside-add_comment";

struct Hist { uint8_t n; uint8_t op[7]; };
static const size_t MAXF = 1u << 16, TABN = 1u << 20;
struct Sh {
    volatile uint32_t reloc, cur_n, cur_step, cur_mode; volatile uint64_t cur_cap; volatile uint8_t cur_ops[8];
    uint64_t tri[8];
    uint32_t nfront[2], overflow, tab_used, samples;
    Hist front[2][MAXF];
    struct { uint64_t h; uint32_t n; } vio[256];
    uint64_t tab[2 * TABN];
};
static Sh* sh = nullptr;

static void report(const std::string& key, const std::string& detail, const std::string& spec) {
    uint64_t h = 1469598103934665603ull; for (unsigned char c : key) h = (h ^ c) * 1099511628211ull; h |= 1;
    for (size_t i = h % 256, k = 0; k < 256; ++k, i = (i + 1) % 256) {
        if (sh->vio[i].h == 0) sh->vio[i].h = h;
        if (sh->vio[i].h == h) { if (sh->vio[i].n++ < 3) benum::viol(key, detail, spec); return; }
    }
    benum::viol(key, detail, spec);
}

static bool visit(uint64_t a, uint64_t b) {    // true if (a,b) is new
    a |= 1;
    for (size_t i = a & (TABN - 1);; i = (i + 1) & (TABN - 1)) {
        if (sh->tab[2 * i] == 0) { sh->tab[2 * i] = a; sh->tab[2 * i + 1] = b; ++sh->tab_used; return true; }
        if (sh->tab[2 * i] == a && sh->tab[2 * i + 1] == b) return false;
    }
}

static std::string death_key(const std::string& what, const std::string& err, const std::string& kind, int mode) {
    const std::string dc = benum::death_class(what, err);
    if (dc.find("heap-use-after-free") != std::string::npos &&
        (dc.find("ChangesetDiscussionBuilder::add_text") != std::string::npos || dc.find("ChangesetDiscussionBuilder::add_comment_text") != std::string::npos ||
         dc.find("ChangesetComment::set_text_size") != std::string::npos))
        return STALE_KEY;
    // debug builds: ~ChangesetDiscussionBuilder asserts !m_comment while buffer_is_full unwinds out of add_comment()
    if (dc.compare(0, 17, "assert/!m_comment") == 0 && mode == 0) return "assert/!m_comment/buffer_is_full-unwinding-out-of-add_comment/auto_grow=no";
    return dc + "/in-" + kind + "/auto_grow=" + MODE_NAME[mode];
}

// Bulk runs use ASAN_OPTIONS symbolize=0:fast_unwind_on_fatal=1 (a symbolized report costs ~200 ms, an
// unsymbolized one ~5 ms). An unsymbolized report is classified by re-running that one case in a fresh
// process with symbolization (`<self> --replay <spec>`); the answer is cached per (operation kind, mode,
// error kind, code addresses of the top frames).
static std::map<std::string, std::string> g_death_cache;
static std::string classify_death(const std::string& what, const std::string& err, const std::string& kind, int mode, const std::string& spec) {
    size_t e = err.find("ERROR: AddressSanitizer: ");
    if (e == std::string::npos || err.find(" in ", e) < err.find("\n\n", e)) return death_key(what, err, kind, mode);
    std::string sig = kind + "|" + MODE_NAME[mode] + "|" + err.substr(e + 25, err.find(' ', e + 25) - e - 25);
    size_t p = e; int frames = 0;
    while (frames < 6 && (p = err.find("+0x", p)) != std::string::npos) { size_t q = err.find(')', p); sig += "|" + err.substr(p, q - p); p = q; ++frames; }
    auto it = g_death_cache.find(sig);
    if (it != g_death_cache.end()) return it->second;
    std::string key = death_key(what, err, kind, mode);
    char exe[512]; ssize_t n = readlink("/proc/self/exe", exe, sizeof exe - 1);
    if (n > 0) {
        exe[n] = 0;
        std::string cmd = std::string("ASAN_OPTIONS=detect_leaks=0:abort_on_error=0 '") + exe + "' --replay '" + spec + "' 2>/dev/null";
        if (FILE* f = popen(cmd.c_str(), "r")) {
            char line[8192];
            while (fgets(line, sizeof line, f)) if (!strncmp(line, "VIOL\t", 5)) { std::string l(line + 5); key = l.substr(0, l.find('\t')); break; }
            pclose(f);
        }
    }
    g_death_cache[sig] = key;
    return key;
}

static std::string err_excerpt(const std::string& err) {
    size_t p = err.find("ERROR: AddressSanitizer");
    if (p == std::string::npos) p = err.find("Assertion `");
    if (p == std::string::npos) return err.substr(0, 300);
    std::string s = err.substr(p, 1200), out; int lines = 0;
    for (char c : s) { if (c == '\n') { if (++lines > 9) break; out += " | "; } else out += c; }
    return out;
}

// ---------------------------------------------------------------------------------------------
// run one history given as a list of operations; publishes progress for post-mortem attribution
static Res run_ops(size_t cap, int mode, const std::vector<const Op*>& ops, bool every_step) {
    Res r;
    sh->cur_cap = cap; sh->cur_mode = static_cast<uint32_t>(mode); sh->cur_step = 0; sh->reloc = 0;
    Ex ex(cap, mode);
    ex.r = &r; ex.counters_tristate = sh->tri; ex.every_step = every_step;
    static const Op init_op = [] { Op o; o.name = "(initial)"; o.kind = "construction"; o.code = COMMIT; return o; }();
    ex.cur = &init_op;
    Hash2 h;
    if (every_step || ops.empty()) {
        ex.b_touched = true;
        if (!ex.check_both(h, "none")) return r;
        ex.b_touched = false;
        r.h1 = h.a; r.h2 = h.b;
    }
    for (size_t k = 0; k < ops.size(); ++k) {
        sh->cur_step = static_cast<uint32_t>(k);
        ex.last_step = k + 1 == ops.size();
        if (!ex.apply(*ops[k])) { r.detail = "at operation #" + std::to_string(k + 1) + " (" + ops[k]->name + ") of [" + trace_of(ops, r) + "], capacity " + std::to_string(cap) + ", auto_grow::" + MODE_NAME[mode] + ": " + r.detail; break; }
    }
    return r;
}

static bool g_replaying = false;
static std::string hist_spec(size_t cap, int mode, const Hist& h) {
    std::string s = "H:" + std::to_string(cap) + ":" + MODE_NAME[mode] + ":";
    for (int i = 0; i < h.n; ++i) s += (i ? "," : "") + OPS[h.op[i]].name;
    return s;
}
static std::vector<const Op*> ops_of(const Hist& h) { std::vector<const Op*> ops; for (int i = 0; i < h.n; ++i) ops.push_back(&OPS[h.op[i]]); return ops; }
static Res run_hist(size_t cap, int mode, const Hist& h) {
    std::vector<const Op*> ops = ops_of(h);
    return run_ops(cap, mode, ops, g_replaying);
}

// the death handler shared by all parts: the dying case is re-derived from its rank by the caller
static void on_death_common(const std::string& what, const std::string& err, const std::vector<const Op*>& ops, const std::string& spec, bool counted = true) {
    const size_t step = sh->cur_step;
    const std::string kind = step < ops.size() ? ops[step]->kind : "?";
    if (counted) { ++C["evaluations"]; ++C["cases_that_killed_the_process"]; }
    report(classify_death(what, err, kind, static_cast<int>(sh->cur_mode), spec),
           "process died (" + what + ") in operation #" + std::to_string(step + 1) + " of " + spec + (sh->reloc ? " [buffer relocated inside add_comment()]" : "") + ": " + err_excerpt(err), spec);
}

// ---------------------------------------------------------------------------------------------
struct Phase { std::string name; std::vector<int> alpha; int depth; int count_from; };

static bool explore_unit(const Args& a, size_t cap, int mode, const Phase& ph, uint64_t unit_no) {
    std::memset(sh->tab, 0, sizeof sh->tab); sh->tab_used = 0; sh->overflow = 0;
    Args a1 = a; a1.shard = 0; a1.nshards = 1;
    const size_t NA = ph.alpha.size();
    {   // root state
        Res r = run_hist(cap, mode, Hist{0, {0}});
        if (r.fail) { report(r.key, r.detail, hist_spec(cap, mode, Hist{0, {0}})); return true; }
        visit(r.h1, r.h2);
        sh->nfront[0] = 1; sh->front[0][0] = Hist{0, {0}};
    }
    for (int level = 1; level <= ph.depth; ++level) {
        const int cur = (level - 1) & 1, nxt = level & 1;
        sh->nfront[nxt] = 0;
        const uint64_t total = static_cast<uint64_t>(sh->nfront[cur]) * NA;
        const bool counted = level >= ph.count_from;
        auto hist_of = [&](uint64_t rank) { Hist h = sh->front[cur][rank / NA]; h.op[h.n++] = static_cast<uint8_t>(ph.alpha[rank % NA]); return h; };
        auto body = [&](uint64_t rank) {
            const Hist h = hist_of(rank);
            Res r = run_hist(cap, mode, h);
            if (counted) {
                ++C["evaluations"]; ++C["transitions"]; ++C["traces_validated_against_impl"];
                if (r.grew) ++C["distinct_nontrivial"];
                if (!r.fail) { std::string k = "outcome " + OPS[h.op[h.n - 1]].kind + ":" + r.last_outcome(); if (k.size() < 55) ++C[k.c_str()]; }
            }
            if (r.left_domain) { ++C["left_open_purge_with_non_entity_top_level_item"]; return; }
            if (r.fail) { report(r.key, r.detail, hist_spec(cap, mode, h)); return; }
            if (visit(r.h1, r.h2)) {
                if (counted) ++C["states"];
                if (level < ph.depth) {
                    if (sh->nfront[nxt] < MAXF && sh->tab_used < TABN / 4 * 3) sh->front[nxt][sh->nfront[nxt]++] = h; else sh->overflow = 1;
                }
                if (counted && r.grew && level == ph.depth && sh->samples < 2 && ((rank * 2654435761u + unit_no * 40503u + a.seed) % 997) == 0) {
                    ++sh->samples;
                    benum::sample("capacity " + std::to_string(cap) + ", auto_grow::" + MODE_NAME[mode] + ": " + trace_of(ops_of(h), r) + "  => model and buffer agree after every step");
                }
            } else if (counted) ++C["revisited_states"];
        };
        auto on_death = [&](uint64_t rank, const std::string& what, const std::string& err) {
            const Hist h = hist_of(rank);
            std::vector<const Op*> ops; for (int i = 0; i < h.n; ++i) ops.push_back(&OPS[h.op[i]]);
            if (counted) { ++C["transitions"]; ++C["traces_validated_against_impl"]; }
            on_death_common(what, err, ops, hist_spec(cap, mode, h), counted);
        };
        if (!benum::run_isolated(a1, 0, total, body, on_death)) return false;
        if (sh->overflow) { benum::note("frontier/visited table overflow in unit capacity=" + std::to_string(cap) + " mode=" + MODE_NAME[mode]); return false; }
    }
    return true;
}

static void part_hist(const Args& a) {
    std::vector<int> full, red, r4, mini;
    for (size_t i = 0; i < OPS.size(); ++i) {
        full.push_back(static_cast<int>(i));
        if (OPS[i].reduced) red.push_back(static_cast<int>(i));
        if (OPS[i].r4) r4.push_back(static_cast<int>(i));
        if (OPS[i].mini) mini.push_back(static_cast<int>(i));
    }
    auto nm = [](const char* n, const std::vector<int>& v) { return std::string(n) + " alphabet (" + std::to_string(v.size()) + " operations)"; };
    std::vector<Phase> phases;
    phases.push_back(Phase{"depth<=2, " + nm("full", full), full, 2, 1});
#ifdef NDEBUG
    const bool big = a.thorough;
#else
    const bool big = false;      // the assert build repeats the quick bounds (plus one deeper mini phase) in the thorough tier
#endif
    if (!big) {
        phases.push_back(Phase{"depth<=3, " + nm("reduced", red), red, 3, 3});
        if (a.thorough) phases.push_back(Phase{"depth<=4, " + nm("mini", mini), mini, 4, 4});
    } else {
        phases.push_back(Phase{"depth<=3, " + nm("full", full), full, 3, 3});
        phases.push_back(Phase{"depth<=4, " + nm("reduced-16", r4), r4, 4, 4});
        phases.push_back(Phase{"depth<=5, " + nm("mini", mini), mini, 5, 5});
    }
    bool complete = true;
    for (const auto& ph : phases) {
        sh->samples = 0;
        uint64_t unit = 0;
        for (size_t cap = 64; cap <= 640 && complete; cap += 8)
            for (int mode = 0; mode < 3 && complete; ++mode, ++unit) {
                if (!a.mine(unit)) continue;
                if (a.expired() || !explore_unit(a, cap, mode, ph, unit)) complete = false;
            }
        benum::bound("histories " + ph.name + " x capacities 64..640 step 8 x auto_grow {no,yes,internal}", complete);
        if (!complete) break;
    }
    if (a.shard == 0) for (auto* v : {&red, &r4, &mini}) {
        std::string names;
        for (int i : *v) names += (names.empty() ? "" : " ") + OPS[i].name;
        benum::note("alphabet of " + std::to_string(v->size()) + ": " + names);
    }
}

// ---------------------------------------------------------------------------------------------
// purge: every sequence of <= n items over 4 kinds, committed one by one, x every removed-mask x with/without
// callback x with/without an uncommitted tail x 3 configurations. Runs through the same step function.
static std::vector<Op> PURGE_OPS;   // synthetic operations (RM with any index)
static std::vector<Op> PURGE_UNRM_OPS;   // ... and UNRM: every second survivor is marked and un-marked again before the purge
static const char PK[] = "abct";
static const Op* pk_op(char c) {
    switch (c) { case 'a': return &OPS[op_index("n_u0")]; case 'b': return &OPS[op_index("n_t2")]; case 'c': return &OPS[op_index("c_t2")]; default: return &OPS[op_index("l_tags2")]; }
}
struct PCase { std::string kinds; unsigned mask; bool cb, tail; int cfg; };
static const size_t PCFG_CAP[3] = {64, 64, 4096};
static const int PCFG_MODE[3] = {1, 2, 0};
static std::string pspec(const PCase& p) { return "P:" + p.kinds + ":" + std::to_string(p.mask) + ":" + (p.cb ? "1" : "0") + ":" + (p.tail ? "1" : "0") + ":" + std::to_string(p.cfg); }
static std::vector<const Op*> pcase_ops(const PCase& p) {
    std::vector<const Op*> ops;
    for (char c : p.kinds) { ops.push_back(pk_op(c)); ops.push_back(&OPS[op_index("commit")]); }
    // in internal mode earlier items may have been retired into nested buffers: indices are relative to the current block, excess ones are no-ops
    for (size_t i = 0; i < p.kinds.size(); ++i) {
        if (p.mask >> i & 1) ops.push_back(&PURGE_OPS[i]);
        else if (i % 2 == 1) { ops.push_back(&PURGE_OPS[i]); ops.push_back(&PURGE_UNRM_OPS[i]); }
    }
    if (p.tail) ops.push_back(&OPS[op_index("n_u6")]);
    ops.push_back(&OPS[op_index(p.cb ? "purge_cb" : "purge")]);
    return ops;
}
static PCase pcase_of(uint64_t rank, int maxn) {
    PCase p; p.cfg = static_cast<int>(rank % 3); rank /= 3; p.cb = rank & 1; rank >>= 1; p.tail = rank & 1; rank >>= 1;
    for (int n = 0; n <= maxn; ++n) {
        uint64_t cnt = benum::ipow(8, static_cast<unsigned>(n));
        if (rank < cnt) { p.mask = 0; for (int i = 0; i < n; ++i) { p.kinds += PK[rank % 4]; rank /= 4; } p.mask = static_cast<unsigned>(rank); return p; }
        rank -= cnt;
    }
    return p;
}
static void run_pcase(const PCase& p) {
    auto ops = pcase_ops(p);
    Res r = run_ops(PCFG_CAP[p.cfg], PCFG_MODE[p.cfg], ops, true);
    ++C["evaluations"]; ++C["purge_cases"];
    if (r.left_domain) { ++C["left_open_purge_with_non_entity_top_level_item"]; return; }
    if (r.fail) { report(r.key, r.detail, pspec(p)); return; }
    if (!strcmp(r.last_outcome(), "moved")) { ++C["distinct_nontrivial"]; ++C["purge_cases_that_moved_items"]; }
}
static void part_purge(const Args& a) {
    const int maxn = a.thorough ? 6 : 4;
    uint64_t total = 0; for (int n = 0; n <= maxn; ++n) total += benum::ipow(8, static_cast<unsigned>(n)); total *= 12;
    auto body = [&](uint64_t rank) { run_pcase(pcase_of(rank, maxn)); };
    auto on_death = [&](uint64_t rank, const std::string& what, const std::string& err) { on_death_common(what, err, pcase_ops(pcase_of(rank, maxn)), pspec(pcase_of(rank, maxn))); };
    bool complete = benum::run_isolated(a, 0, total, body, on_death);
    benum::bound("purge: all sequences of <= " + std::to_string(maxn) + " items over {node, node+tags, changeset+tags, bare tag list} x all removed-masks x callback y/n x uncommitted tail y/n x 3 configurations", complete);
    if (a.shard == 0) benum::sample("purge: items 'acb' committed one by one in Buffer(64, auto_grow::yes), mask 0b001 (first removed), purge_removed(&cb): survivors c,b in order, callbacks (48->0),(176->128)");
}

// ---------------------------------------------------------------------------------------------
// CallbackBuffer: histories over {add small node, add big node, possibly_flush, flush, read, toggle callback}
static const char CK[] = "nNpfrs";
struct CCase { std::string ops; size_t initial, maxsz; };
static std::string cspec(const CCase& c) { return "Q:" + std::to_string(c.initial) + ":" + std::to_string(c.maxsz) + ":" + c.ops; }
static CCase ccase_of(uint64_t rank, int maxn) {
    static const size_t INI[3] = {64, 100, 256}, MX[3] = {0, 48, 150};
    CCase c; c.initial = INI[rank % 3]; rank /= 3; c.maxsz = MX[rank % 3]; rank /= 3;
    for (int n = 1; n <= maxn; ++n) {
        uint64_t cnt = benum::ipow(6, static_cast<unsigned>(n));
        if (rank < cnt) { for (int i = 0; i < n; ++i) { c.ops += CK[rank % 6]; rank /= 6; } return c; }
        rank -= cnt;
    }
    return c;
}
static void run_ccase(const CCase& c) {
    const std::string spec = cspec(c);
    sh->cur_mode = 1; sh->cur_step = 0;
    ++C["evaluations"]; ++C["callback_buffer_cases"];
    osmium::memory::CallbackBuffer cb{c.initial, c.maxsz};
    std::deque<MItem> pool;                      // stable storage for the items built in this case
    std::vector<std::vector<MI>> delivered_model;
    std::vector<MI> cur;
    bool has_cb = false; size_t delivered_ok = 0; std::string bad;
    const size_t cap_fresh = c.initial < 64 ? 64 : pad8(c.initial);
    auto same = [&](const Buffer& b, const std::vector<MI>& want, const char* what) {
        Snap s; std::string path, detail;
        if (!buffer_matches(b, want, std::vector<MI>{}, nullptr, s, path, detail)) { bad = std::string(what) + ": " + detail; return false; }
        return true;
    };
    auto callback = [&](Buffer&& b) {
        if (delivered_ok < delivered_model.size() && same(b, delivered_model[delivered_ok], "delivered buffer")) ++delivered_ok;
        else if (bad.empty()) bad = "callback invoked more often than the model allows";
    };
    int id = 0;
    for (size_t k = 0; k < c.ops.size() && bad.empty(); ++k) {
        sh->cur_step = static_cast<uint32_t>(k);
        const size_t before = delivered_model.size();
        auto model_flush = [&] { if (has_cb && !cur.empty()) { delivered_model.push_back(cur); cur.clear(); } };
        switch (c.ops[k]) {
            case 'n': case 'N': { pool.push_back(m_obj(IT::node, ++id, c.ops[k] == 'N' ? 64 : 0)); build_manual(cb.buffer(), pool.back(), id % 3); cb.buffer().commit(); cur.push_back(MI{&pool.back(), false}); break; }
            case 'p': { size_t bytes = 0; for (auto& m : cur) bytes += msize(m); if (bytes > c.maxsz) model_flush(); cb.possibly_flush(); break; }
            case 'f': model_flush(); cb.flush(); break;
            case 'r': { Buffer b = cb.read(); same(b, cur, "buffer returned by read()"); cur.clear(); break; }
            default: has_cb = !has_cb; if (has_cb) cb.set_callback(callback); else cb.set_callback(); break;
        }
        if (bad.empty() && delivered_ok != delivered_model.size()) bad = "callback not invoked (" + std::to_string(delivered_ok) + " deliveries, model " + std::to_string(delivered_model.size()) + ")";
        if (bad.empty()) same(cb.buffer(), cur, "internal buffer");
        if (bad.empty() && cur.empty() && (delivered_model.size() != before || c.ops[k] == 'r') && (cb.buffer().capacity() != cap_fresh || cb.buffer().written() != 0))
            bad = "fresh internal buffer has capacity " + std::to_string(cb.buffer().capacity()) + ", expected " + std::to_string(cap_fresh);
        if (!bad.empty()) { report("callback-buffer/differs-from-model/after-" + std::string(1, c.ops[k]), spec + " step " + std::to_string(k + 1) + ": " + bad, spec); return; }
    }
    if (!delivered_model.empty()) ++C["distinct_nontrivial"];
}
static void part_cbuf(const Args& a) {
    const int maxn = a.thorough ? 7 : 5;
    uint64_t total = 0; for (int n = 1; n <= maxn; ++n) total += benum::ipow(6, static_cast<unsigned>(n)); total *= 9;
    static const Op cbop = [] { Op o; o.name = "callback-buffer"; o.kind = "callback-buffer"; o.code = COMMIT; return o; }();
    std::vector<const Op*> dummy(8, &cbop);
    auto body = [&](uint64_t rank) { run_ccase(ccase_of(rank, maxn)); };
    auto on_death = [&](uint64_t rank, const std::string& what, const std::string& err) { on_death_common(what, err, dummy, cspec(ccase_of(rank, maxn))); };
    bool complete = benum::run_isolated(a, 0, total, body, on_death);
    benum::bound("CallbackBuffer: all histories of length <= " + std::to_string(maxn) + " over {small node, big node, possibly_flush, flush, read, toggle callback} x initial {64,100,256} x max {0,48,150}", complete);
    if (a.shard == 0) benum::sample("cbuf: initial=64 max=48 ops 'snNp': callback set, two nodes committed (buffer grows 64->256), possibly_flush delivers both nodes in order and leaves a fresh 64-byte buffer");
}

// ---------------------------------------------------------------------------------------------
static std::vector<std::string> split(const std::string& s, char sep) { std::vector<std::string> v; size_t p = 0; for (;;) { size_t q = s.find(sep, p); v.push_back(s.substr(p, q == std::string::npos ? q : q - p)); if (q == std::string::npos) break; p = q + 1; } return v; }

static int replay(const Args& a, const std::string& spec) {
    Args a1 = a; a1.shard = 0; a1.nshards = 1; a1.deadline_s = 1e9;
    auto f = split(spec, ':');
    if (f[0] == "H" && f.size() >= 3) {
        size_t cap = strtoull(f[1].c_str(), nullptr, 10); int mode = f[2] == "no" ? 0 : f[2] == "yes" ? 1 : 2;
        Hist h{0, {0}}; std::vector<const Op*> ops;
        if (f.size() > 3 && !f[3].empty()) for (auto& n : split(f[3], ',')) { int i = op_index(n); if (i < 0 || h.n >= 7) { fprintf(stderr, "bad op %s\n", n.c_str()); return 2; } h.op[h.n++] = static_cast<uint8_t>(i); ops.push_back(&OPS[i]); }
        benum::run_isolated(a1, 0, 1, [&](uint64_t) { Res r = run_hist(cap, mode, h); if (r.fail) report(r.key, r.detail, spec); else benum::note("ok: " + trace_of(ops, r)); },
                            [&](uint64_t, const std::string& what, const std::string& err) { on_death_common(what, err, ops, spec); });
    } else if (f[0] == "P" && f.size() == 6) {
        PCase p; p.kinds = f[1]; p.mask = static_cast<unsigned>(atoi(f[2].c_str())); p.cb = f[3] == "1"; p.tail = f[4] == "1"; p.cfg = atoi(f[5].c_str());
        benum::run_isolated(a1, 0, 1, [&](uint64_t) { run_pcase(p); }, [&](uint64_t, const std::string& what, const std::string& err) { on_death_common(what, err, pcase_ops(p), spec); });
    } else if (f[0] == "Q" && f.size() == 4) {
        CCase c; c.initial = strtoull(f[1].c_str(), nullptr, 10); c.maxsz = strtoull(f[2].c_str(), nullptr, 10); c.ops = f[3];
        static const Op cbop = [] { Op o; o.name = "callback-buffer"; o.kind = "callback-buffer"; o.code = COMMIT; return o; }();
        std::vector<const Op*> dummy(8, &cbop);
        benum::run_isolated(a1, 0, 1, [&](uint64_t) { run_ccase(c); }, [&](uint64_t, const std::string& what, const std::string& err) { on_death_common(what, err, dummy, spec); });
    } else { fprintf(stderr, "bad replay spec\n"); return 2; }
    return 0;
}

int main(int argc, char** argv) {
    Args a = benum::parse_args(argc, argv);
    sh = static_cast<Sh*>(mmap(nullptr, sizeof(Sh), PROT_READ | PROT_WRITE, MAP_SHARED | MAP_ANONYMOUS, -1, 0));
    if (sh == MAP_FAILED) { perror("mmap"); return 2; }
    g_reloc_in_comment = &sh->reloc;
    make_source_items();
    // the read-only source buffer, built once with plenty of room and validated against its model
    static Buffer src{4096, Buffer::auto_grow::no};
    SRC = &src;
    for (auto& m : SRC_ITEMS) { SRC_OFF.push_back(src.committed()); build_manual(src, m, 0); src.commit(); }
    make_alphabet();
    for (int i = 0; i < 8; ++i) { Op o; o.name = "rm#" + std::to_string(i); o.kind = "set_removed"; o.code = RM; o.arg = i; PURGE_OPS.push_back(o); }
    for (int i = 0; i < 8; ++i) { Op o; o.name = "unrm#" + std::to_string(i); o.kind = "set_removed(false)"; o.code = UNRM; o.arg = i; PURGE_UNRM_OPS.push_back(o); }
    {
        Snap s; std::string path, detail;
        std::vector<MI> want; for (auto& m : SRC_ITEMS) want.push_back(MI{&m, false});
        if (!buffer_matches(src, want, std::vector<MI>{}, nullptr, s, path, detail)) {
            benum::viol("source-buffer/objects-built-in-a-large-buffer-differ-from-model/" + path, detail, "H:640:yes:");
            benum::cov("evaluations", 1); benum::cov("distinct_nontrivial", 0);
            return 0;
        }
    }
    if (a.replay) { g_replaying = true; return replay(a, a.replay_spec); }
    std::string part = a.rest.size() >= 2 && a.rest[0] == "--part" ? a.rest[1] : "";
    if (part == "hist") part_hist(a);
    else if (part == "purge") part_purge(a);
    else if (part == "cbuf") part_cbuf(a);
    else { fprintf(stderr, "unknown part\n"); return 2; }
    C["purge_dropped_uncommitted_data(left open)"] += sh->tri[0];
    C["purge_kept_uncommitted_data(left open)"] += sh->tri[1];
    C["grew_although_data_fitted(left open)"] += sh->tri[2];
    C["growth_follows_doubling_rule"] += sh->tri[3];
    C["growth_differs_from_doubling_rule(left open)"] += sh->tri[4];
    C.emit();
    return 0;
}
