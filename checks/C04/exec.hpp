// C04: operation alphabet, model buffer, and the step function that applies one operation to the real
// Buffer and to the model and compares them (the oracle).
#ifndef C04_EXEC_HPP
#define C04_EXEC_HPP

#include "build.hpp"
#include "walk.hpp"

#include <memory>

enum Code { BUILD, ATTR, COMMIT, ROLLBACK, CLEAR, ADD_BUFFER, ADD_BUFFER_C, PUSH_BACK, ADD_ITEM, SWAP, MOVE_RT, TAKE_B, RM, UNRM, PURGE, PURGE_CB, POP_NESTED };

struct Op {
    std::string name, kind;   // kind: coarse class used in class keys and outcome counters
    Code code;
    MItem item;               // BUILD / ATTR
    int style = 0;            // BUILD
    int arg = 0;              // PUSH_BACK / ADD_ITEM: source index; RM: item index (-1 = last)
    bool reduced = false, mini = false, r4 = false;
};
static std::vector<Op> OPS;

static void add_op(const std::string& name, const std::string& kind, Code c, int arg = 0, int flags = 0) {
    Op o; o.name = name; o.kind = kind; o.code = c; o.arg = arg; o.reduced = flags & 1; o.mini = flags & 2; o.r4 = flags & 4; OPS.push_back(o);
}
static void add_build(const std::string& name, const MItem& m, int style, int flags = 0, Code c = BUILD) {
    Op o; o.name = name; o.code = c; o.item = m; o.style = style; o.reduced = flags & 1; o.mini = flags & 2; o.r4 = flags & 4;
    bool disc = false, full = false;
    for (auto& s : m.subs) { if (s.type == IT::changeset_discussion && !s.comments.empty()) disc = true; for (auto& x : s.members) if (x.full >= 0) full = true; }
    o.kind = std::string(c == ATTR ? "attr-" : "build-") + (is_list(m.type) ? std::string("bare-") + tname(m.type) : tname(m.type)) + (disc && !is_list(m.type) ? "-discussion" : "") + (full ? "-fullmembers" : "");
    OPS.push_back(o);
}

static MItem with(MItem m, std::initializer_list<MSub> subs) { for (auto& s : subs) m.subs.push_back(s); for (auto& s : m.subs) if (s.type == IT::changeset_discussion) m.ncomments = static_cast<uint32_t>(s.comments.size()); return m; }

static void make_source_items() {
    SRC_ITEMS.clear();
    SRC_ITEMS.push_back(with(m_obj(IT::node, 900, 3), {m_tags({{2, 2}}, 90)}));
    SRC_ITEMS.push_back(with(m_obj(IT::way, 901, 0), {m_refs(IT::way_node_list, 2, 91)}));
    SRC_ITEMS.push_back(with(m_obj(IT::relation, 902, 1), {m_members({{1, -1}}, 92)}));
}

static void make_alphabet() {
    OPS.clear();
    const int R = 1, M = 7, Q = 5;   // flags: reduced (quick depth 3) / reduced+reduced-16+mini / reduced+reduced-16
    // --- objects with every interesting user length (5|6 and 13|14 are the in-place/extension boundaries of objects, 7|8 of changesets)
    int id = 1;
    for (int u : {0, 1, 5, 6, 7, 8, 9, 64}) add_build("n_u" + std::to_string(u), m_obj(IT::node, id, u), id % 3, u == 0 ? M : (u == 6 ? Q : 0)), ++id;
    add_build("n_t0", with(m_obj(IT::node, id++, 5), {m_tags({}, 1)}), 0);
    add_build("n_t1", with(m_obj(IT::node, id++, 5), {m_tags({{1, 0}}, 2)}), 1);
    add_build("n_t2", with(m_obj(IT::node, id++, 5), {m_tags({{7, 8}, {0, 1}}, 3)}), 0, R);
    add_build("n_t2s", with(m_obj(IT::node, id++, 13), {m_tags({{1, 1}, {8, 0}}, 4)}), 2);
    add_build("n_t3", with(m_obj(IT::node, id++, 14), {m_tags({{8, 7}, {1, 1}, {7, 7}}, 5)}), 1);
    add_build("w_n0", with(m_obj(IT::way, id++, 0), {m_refs(IT::way_node_list, 0, 1)}), 0);
    add_build("w_n1", with(m_obj(IT::way, id++, 1), {m_refs(IT::way_node_list, 1, 2)}), 1);
    add_build("w_n2", with(m_obj(IT::way, id++, 5), {m_refs(IT::way_node_list, 2, 3)}), 2, R);
    add_build("w_n3", with(m_obj(IT::way, id++, 6), {m_refs(IT::way_node_list, 3, 4)}), 0);
    add_build("w_t2n3", with(m_obj(IT::way, id++, 6), {m_tags({{0, 7}, {8, 8}}, 6), m_refs(IT::way_node_list, 3, 5)}), 1);
    add_build("r_m0", with(m_obj(IT::relation, id++, 0), {m_members({}, 1)}), 0);
    add_build("r_m1", with(m_obj(IT::relation, id++, 1), {m_members({{0, -1}}, 2)}), 1);
    add_build("r_m2", with(m_obj(IT::relation, id++, 6), {m_members({{1, -1}, {7, -1}}, 3)}), 2, M);
    add_build("r_m3", with(m_obj(IT::relation, id++, 9), {m_members({{7, -1}, {8, -1}, {9, -1}}, 4)}), 0);
    add_build("r_f1", with(m_obj(IT::relation, id++, 0), {m_members({{3, 0}}, 5)}), 1, Q);
    add_build("r_f3", with(m_obj(IT::relation, id++, 5), {m_members({{0, -1}, {7, 1}, {8, -1}}, 6)}), 0);
    add_build("r_t1f2", with(m_obj(IT::relation, id++, 7), {m_tags({{7, 1}}, 7), m_members({{8, 2}, {0, 0}}, 7)}), 2);
    add_build("a_o3", with(m_obj(IT::area, id++, 0), {m_refs(IT::outer_ring, 3, 1)}), 0);
    add_build("a_o3i3", with(m_obj(IT::area, id++, 6), {m_refs(IT::outer_ring, 3, 2), m_refs(IT::inner_ring, 3, 3)}), 1, R);
    add_build("a_t1o2i1o3", with(m_obj(IT::area, id++, 8), {m_tags({{1, 7}}, 8), m_refs(IT::outer_ring, 2, 4), m_refs(IT::inner_ring, 1, 5), m_refs(IT::outer_ring, 3, 6)}), 2);
    for (int u : {0, 1, 7, 8, 9, 64}) add_build("c_u" + std::to_string(u), m_cset(id, u), id % 3, u == 8 ? R : 0), ++id;
    add_build("c_t2", with(m_cset(id++, 7), {m_tags({{7, 0}, {1, 8}}, 9)}), 0);
    add_build("c_d0", with(m_cset(id++, 0), {m_disc({}, 1)}), 1);
    add_build("c_d1_u0t0", with(m_cset(id++, 1), {m_disc({{0, 0}}, 2)}), 0);
    add_build("c_d1_u6t1", with(m_cset(id++, 7), {m_disc({{6, 1}}, 3)}), 1);
    add_build("c_d1_u7t8", with(m_cset(id++, 8), {m_disc({{7, 8}}, 4)}), 2, M);
    add_build("c_d1_u8t64", with(m_cset(id++, 0), {m_disc({{8, 64}}, 5)}), 0);
    add_build("c_d1_u64t7", with(m_cset(id++, 9), {m_disc({{64, 7}}, 6)}), 1);
    add_build("c_d2", with(m_cset(id++, 1), {m_disc({{1, 7}, {7, 0}}, 7)}), 0, Q);
    add_build("c_t1d2", with(m_cset(id++, 8), {m_tags({{8, 8}}, 10), m_disc({{8, 8}, {0, 1}}, 8)}), 1);
    // --- sub-item lists copied into the object with Builder::add_item() (call style 3), list sizes on both sides of the 8-byte padding
    add_build("n_t2c", with(m_obj(IT::node, id++, 5), {m_tags({{7, 8}, {0, 1}}, 17)}), 3, Q);
    add_build("n_t1c", with(m_obj(IT::node, id++, 6), {m_tags({{1, 0}}, 18)}), 3);
    add_build("w_t2n3c", with(m_obj(IT::way, id++, 6), {m_tags({{0, 7}, {8, 8}}, 19), m_refs(IT::way_node_list, 3, 11)}), 3);
    add_build("r_t1f2c", with(m_obj(IT::relation, id++, 7), {m_tags({{7, 1}}, 20), m_members({{8, 2}, {0, 0}}, 11)}), 3, R);
    add_build("c_t1d2c", with(m_cset(id++, 8), {m_tags({{8, 8}}, 21), m_disc({{8, 8}, {0, 1}}, 12)}), 3);
    add_build("a_t1o2i1c", with(m_obj(IT::area, id++, 8), {m_tags({{1, 7}}, 22), m_refs(IT::outer_ring, 2, 12), m_refs(IT::inner_ring, 1, 13)}), 3);
    // --- bare lists as top-level items
    add_build("l_tags2", m_list(m_tags({{1, 7}, {8, 0}}, 11)), 0, Q);
    add_build("l_wnl2", m_list(m_refs(IT::way_node_list, 2, 7)), 1);
    add_build("l_rml1", m_list(m_members({{7, -1}}, 8)), 2);
    add_build("l_disc1", m_list(m_disc({{7, 1}}, 9)), 0);
    // --- attr.hpp interface (commits by itself)
    add_build("at_n", with(m_obj(IT::node, id++, 6), {m_tags({{1, 1}, {7, 8}}, 12)}), 0, Q, ATTR);
    add_build("at_w", with(m_obj(IT::way, id++, 1), {m_tags({{0, 0}}, 13), m_refs(IT::way_node_list, 3, 8)}), 0, 0, ATTR);
    add_build("at_r", with(m_obj(IT::relation, id++, 0), {m_members({{0, -1}, {8, -1}}, 9)}), 0, 0, ATTR);
    { MItem c = with(m_cset(id++, 8), {m_tags({{7, 7}}, 14), m_disc({{7, 9}}, 10)}); c.bx1 = c.by1 = c.bx2 = c.by2 = osmium::Location::undefined_coordinate; add_build("at_c", c, 0, R, ATTR); }
    add_build("at_a", with(m_obj(IT::area, id++, 0), {m_tags({{1, 0}}, 15), m_refs(IT::outer_ring, 3, 9), m_refs(IT::inner_ring, 3, 10)}), 0, 0, ATTR);
    add_build("at_tl", m_list(m_tags({{7, 0}}, 16)), 0, 0, ATTR);
    // --- buffer operations
    add_op("commit", "commit", COMMIT, 0, M);
    add_op("rollback", "rollback", ROLLBACK, 0, Q);
    add_op("clear", "clear", CLEAR, 0, R);
    add_op("addbuf", "add_buffer", ADD_BUFFER, 0, 0);
    add_op("addbuf_c", "add_buffer", ADD_BUFFER_C, 0, M);
    add_op("push0", "push_back", PUSH_BACK, 0, R);
    add_op("push1", "push_back", PUSH_BACK, 1, 0);
    add_op("additem0", "add_item", ADD_ITEM, 0, 0);
    add_op("additem2", "add_item", ADD_ITEM, 2, R);
    add_op("swap", "swap", SWAP, 0, Q);
    add_op("move", "move", MOVE_RT, 0, R);
    add_op("takeB", "move", TAKE_B, 0, 0);
    add_op("rm0", "set_removed", RM, 0, M);
    add_op("rm1", "set_removed", RM, 1, M);
    add_op("rm2", "set_removed", RM, 2, 0);
    add_op("rmlast", "set_removed", RM, -1, 0);
    add_op("unrm0", "set_removed(false)", UNRM, 0, M);      // a removal mark can be taken back before the purge (seed C04e)
    add_op("unrmlast", "set_removed(false)", UNRM, -1, 0);
    add_op("purge", "purge", PURGE, 0, R);
    add_op("purge_cb", "purge", PURGE_CB, 0, M);
    add_op("popnest", "get_last_nested", POP_NESTED, 0, Q);
}

static int op_index(const std::string& name) { for (size_t i = 0; i < OPS.size(); ++i) if (OPS[i].name == name) return static_cast<int>(i); return -1; }

// ---------------------------------------------------------------------------------------------
struct MBuf {                         // the reference model of one Buffer
    size_t cap = 0; int mode = 0;
    std::vector<MI> com;              // all committed items: nested chunks (oldest first) then the current block
    std::vector<size_t> nested;       // item count per nested chunk, oldest first
    std::vector<MI> unc;              // written but not committed
    size_t n_nested() const { size_t n = 0; for (size_t c : nested) n += c; return n; }
};
static size_t msize(const MI& i) { return pad8(item_size(*i.m)); }

struct Res {
    bool fail = false;
    bool left_domain = false;         // purge_removed() on a buffer with a top-level item that is not an OSM entity: outside the property's domain, history abandoned
    std::string key, detail;
    uint64_t h1 = 0, h2 = 0;
    bool grew = false;                // some operation of the history relocated/grew the buffer
    const char* outcome[16];          // per operation: none|realloc|internal|internal+realloc|full|moved|nothing-moved
    int nout = 0;
    const char* last_outcome() const { return nout ? outcome[nout - 1] : "none"; }
};
static std::string trace_of(const std::vector<const Op*>& ops, const Res& r) {
    std::string t;
    for (size_t i = 0; i < ops.size(); ++i) {
        t += (i ? " -> " : "") + ops[i]->name;
        if (static_cast<int>(i) < r.nout && strcmp(r.outcome[i], "none") != 0) t += std::string("[") + r.outcome[i] + "]";
    }
    return t;
}

struct PurgeCb {
    std::vector<std::pair<size_t, size_t>> calls;
    void moving_in_buffer(size_t o, size_t n) { calls.emplace_back(o, n); }
};

static const char* MODE_NAME[3] = {"no", "yes", "internal"};
static const MItem B_NODE = m_obj(IT::node, 77, 0);

struct Ex {
    Buffer A, B;
    MBuf MA, MB;
    Res* r = nullptr;
    const Op* cur = nullptr;
    uint64_t* counters_tristate = nullptr;   // [0] purge dropped uncommitted, [1] purge kept uncommitted, [2] grew although it fitted, [3] capacity follows doubling rule, [4] not
    bool every_step = true;   // false: only the last operation of a history is compared (its prefix was compared when it was the last one)
    bool last_step = false;
    bool b_touched = false;   // B only changes through swap / takeB; an untouched B contributes a constant to the state

    Ex(size_t cap, int mode) : A(cap, static_cast<Buffer::auto_grow>(mode)), B(64, Buffer::auto_grow::yes) {
        MA.cap = cap; MA.mode = mode; MB.cap = 64; MB.mode = 1;
        build_manual(B, B_NODE, 0); B.commit();
        MB.com.push_back(MI{&B_NODE, false});
    }

    bool fail(const std::string& key, const std::string& detail) { r->fail = true; r->key = key; r->detail = detail; return false; }

    // compare one real buffer with its model (content + geometry); 'h' accumulates the canonical state hash
    bool check(const Buffer& b, MBuf& m, const char* which, Hash2* h, const std::string& growth) {
        Snap s; std::string path, detail;
        const std::string after = "/after-" + cur->kind;
        const bool ok = buffer_matches(b, m.com, m.unc, h, s, path, detail);
        if (!s.err.empty()) return fail("invariant/buffer-geometry" + after, std::string(which) + ": " + s.err);
        if (s.mode != m.mode) return fail("invariant/auto_grow-mode-changed" + after, which);
        if (s.capacity != m.cap) return fail("invariant/capacity-differs-from-model" + after, std::string(which) + ": capacity " + std::to_string(s.capacity) + ", model " + std::to_string(m.cap));
        if (!ok) {
            // one canonical class for the stale ChangesetComment pointer (see check.py): discussion content wrong after the buffer moved inside add_comment()
            const bool in_disc = path.find("discussion") != std::string::npos;
            const bool moved_in_comment = g_reloc_in_comment && *g_reloc_in_comment;
            if (in_disc && (moved_in_comment || (cur->code == ATTR && growth != "none")))
                return fail("asan/heap-use-after-free@osmium::builder::ChangesetDiscussionBuilder::add_text/grow-inside-add_comment",
                            "silent variant (the retired block is still alive in the nested chain or was not caught): " + detail);
            return fail("mismatch/" + path + after + "/growth=" + growth, std::string(which) + " " + detail);
        }
        if (s.chunk_counts != m.nested) return fail("nested/chunk-boundaries-differ-from-model" + after, which);
        return true;
    }
    bool check_both(Hash2& h, const std::string& growth) {
        if (!check(A, MA, "A", &h, growth)) return false;
        if (b_touched) return check(B, MB, "B", &h, growth);
        h.num(0xB);
        return true;
    }

    bool apply(const Op& op);
};

static size_t chain_len(const Buffer& b) { size_t n = 0; for (const Buffer* p = b.m_next_buffer.get(); p; p = p->m_next_buffer.get()) ++n; return n; }

bool Ex::apply(const Op& op) {
    cur = &op;
    if (g_reloc_in_comment) *g_reloc_in_comment = 0;
    const size_t w0 = A.written(), c0 = A.committed(), cap0 = A.capacity(), nest0 = chain_len(A);
    const size_t cur_items0 = MA.com.size() - MA.n_nested();
    const std::string& K = op.kind;
    const char* growth = "none";
    bool reserves = false, single_reserve = false, selfcommit = false, threw = false, has_ret = false;
    size_t need = 0, ret = 0, first_added = MA.unc.size();
    PurgeCb cb;
    auto add_src = [&](int i) { MA.unc.push_back(MI{&SRC_ITEMS[i], false}); };

    switch (op.code) {
        case BUILD: case ATTR: need = pad8(item_size(op.item)); reserves = true; selfcommit = op.code == ATTR; has_ret = selfcommit; break;
        case ADD_BUFFER: case ADD_BUFFER_C: need = SRC->committed(); reserves = single_reserve = true; selfcommit = op.code == ADD_BUFFER_C; break;
        case PUSH_BACK: case ADD_ITEM: need = pad8(item_size(SRC_ITEMS[op.arg])); reserves = single_reserve = true; selfcommit = op.code == PUSH_BACK; break;
        default: break;
    }

    try {
        switch (op.code) {
            case BUILD: build_manual(A, op.item, op.style); break;
            case ATTR: ret = build_attr(A, op.item); break;
            case ADD_BUFFER: A.add_buffer(*SRC); break;
            case ADD_BUFFER_C: A.add_buffer(*SRC); ret = A.commit(); has_ret = true; break;
            case PUSH_BACK: A.push_back(SRC->get<osmium::memory::Item>(SRC_OFF[op.arg])); break;
            case ADD_ITEM: {
                auto& copy = A.add_item(SRC->get<osmium::memory::Item>(SRC_OFF[op.arg]));
                if (reinterpret_cast<unsigned char*>(&copy) != A.data() + A.written() - need) return fail("add_item/returned-reference-not-the-copy", op.name);
                break;
            }
            case COMMIT: ret = A.commit(); has_ret = true; MA.com.insert(MA.com.end(), MA.unc.begin(), MA.unc.end()); MA.unc.clear(); break;
            case ROLLBACK: A.rollback(); MA.unc.clear(); break;
            case CLEAR: {
                ret = A.clear();
                if (ret != c0) return fail("clear/wrong-return-value", "clear() returned " + std::to_string(ret) + ", committed bytes were " + std::to_string(c0));
                MA.com.resize(MA.n_nested()); MA.unc.clear();
                break;
            }
            case SWAP: { using std::swap; swap(A, B); std::swap(MA, MB); b_touched = true; break; }
            case MOVE_RT: {          // move-construct away and move-assign back: state must be unchanged, the moved-from buffer invalid and empty
                Buffer C{std::move(A)};
                if (A || A.capacity() != 0 || A.written() != 0 || A.committed() != 0 || A.has_nested_buffers())
                    return fail("move/moved-from-buffer-not-empty-invalid", "after move construction");
                A = std::move(C);
                if (C || C.capacity() != 0 || C.written() != 0 || C.committed() != 0 || C.has_nested_buffers())
                    return fail("move/moved-from-buffer-not-empty-invalid", "after move assignment");
                break;
            }
            case TAKE_B: {           // move-assign over a live buffer; B restarts empty
                A = std::move(B);
                B = Buffer{64, Buffer::auto_grow::yes};
                MA = MB; MB = MBuf{}; MB.cap = 64; MB.mode = 1; b_touched = true;
                break;
            }
            case RM: case UNRM: {
                size_t idx = op.arg < 0 ? (cur_items0 ? cur_items0 - 1 : 0) : static_cast<size_t>(op.arg);
                if (idx < cur_items0) {
                    size_t off = 0;
                    for (size_t i = 0; i < idx; ++i) off += msize(MA.com[MA.n_nested() + i]);
                    A.get<osmium::memory::Item>(off).set_removed(op.code == RM);     // fetched by offset, used immediately
                    MA.com[MA.n_nested() + idx].removed = op.code == RM;
                }
                break;
            }
            case PURGE: A.purge_removed(); break;
            case PURGE_CB: A.purge_removed(&cb); break;
            case POP_NESTED: {
                if (A.has_nested_buffers()) {
                    std::unique_ptr<Buffer> nb = A.get_last_nested();
                    if (!nb || !*nb || nb->has_nested_buffers()) return fail("nested/get_last_nested-returned-bad-buffer", op.name);
                    std::vector<MI> oldest(MA.com.begin(), MA.com.begin() + static_cast<long>(MA.nested.empty() ? 0 : MA.nested[0]));
                    Snap s; std::string path, detail;
                    if (!buffer_matches(*nb, oldest, std::vector<MI>{}, nullptr, s, path, detail))
                        return fail("nested/popped-buffer-is-not-the-oldest-committed-data/" + path, detail);
                    MA.com.erase(MA.com.begin(), MA.com.begin() + static_cast<long>(oldest.size()));
                    if (!MA.nested.empty()) MA.nested.erase(MA.nested.begin());
                }
                break;
            }
        }
    } catch (const osmium::buffer_is_full&) {
        threw = true;
    } catch (const std::exception& e) {
        return fail("exception/unexpected/" + K + "/auto_grow=" + MODE_NAME[MA.mode], std::string(op.name) + " threw: " + e.what());
    }

    // ---- documented growth / exception behaviour of space-reserving operations
    if (op.code == SWAP || op.code == TAKE_B) {
        // geometry comes from the other model
    } else if (reserves) {
        const bool must_throw = MA.mode == 0 && w0 + need > cap0;
        const std::string nums = op.name + ": written=" + std::to_string(w0) + " need=" + std::to_string(need) + " capacity=" + std::to_string(cap0);
        if (threw && !must_throw) return fail(std::string("buffer_is_full/thrown-although-") + (MA.mode == 0 ? "data-fits" : "buffer-can-grow") + "/" + K, nums);
        if (!threw && must_throw) return fail("buffer_is_full/not-thrown-by-full-non-growing-buffer/" + K, nums);
        if (threw) {
            growth = "full";
            if (single_reserve) {   // nothing may have changed
                if (A.written() != w0 || A.committed() != c0 || A.capacity() != cap0) return fail("buffer_is_full/failed-" + K + "-changed-the-buffer", op.name);
            } else {
                A.rollback();       // the documented reaction to a half-built object
                MA.unc.clear();
            }
        } else {
            switch (op.code) {
                case BUILD: case ATTR: MA.unc.push_back(MI{&op.item, op.item.removed}); break;
                case ADD_BUFFER: case ADD_BUFFER_C: for (size_t i = 0; i < SRC_ITEMS.size(); ++i) add_src(static_cast<int>(i)); break;
                default: add_src(op.arg); break;
            }
            (void)first_added;
            const size_t nest1 = chain_len(A), cap1 = A.capacity();
            if (nest1 != nest0) {
                if (MA.mode != 2) return fail("nested/chain-grew-in-mode-" + std::string(MODE_NAME[MA.mode]), op.name);
                if (nest1 != nest0 + 1 || c0 == 0) return fail("nested/chain-grew-unexpectedly/" + K, "chain " + std::to_string(nest0) + " -> " + std::to_string(nest1) + ", committed before=" + std::to_string(c0));
                MA.nested.push_back(cur_items0);   // the whole committed region of the current block is retired, in order
                growth = cap1 != cap0 ? "internal+realloc" : "internal";
            } else if (cap1 != cap0) growth = "realloc";
            const bool grew_now = strcmp(growth, "none") != 0;
            if (cap1 < cap0) return fail("invariant/capacity-shrank/" + K, op.name);
            if (MA.mode == 0 && grew_now) return fail("invariant/non-growing-buffer-grew/" + K, op.name);
            if (grew_now && w0 + need <= cap0 && counters_tristate) ++counters_tristate[2];
            if (cap1 != cap0) {
                size_t base = nest1 != nest0 ? w0 - c0 : w0, want = cap0 * 2;
                while (base + need > want) want *= 2;
                if (counters_tristate) ++counters_tristate[cap1 == want ? 3 : 4];
            }
            MA.cap = cap1;
            if (selfcommit) {
                MA.com.insert(MA.com.end(), MA.unc.begin(), MA.unc.end()); MA.unc.clear();
                const size_t want = nest1 != nest0 ? 0 : c0;
                if (has_ret && ret != want) return fail("commit/wrong-return-value/" + K, op.name + " returned offset " + std::to_string(ret) + ", expected " + std::to_string(want));
            }
            if (grew_now) r->grew = true;
        }
    } else {
        if (threw) return fail("exception/buffer_is_full-from-non-reserving-operation/" + K, op.name);
        if (op.code == COMMIT && ret != c0) return fail("commit/wrong-return-value/commit", "returned " + std::to_string(ret) + ", expected " + std::to_string(c0));
        if (op.code != POP_NESTED && chain_len(A) != nest0) return fail("nested/chain-changed-by-" + K, op.name);
        if (A.capacity() != cap0) return fail("invariant/capacity-changed-by-" + K, op.name);
    }

    // ---- purge: survivors in order, callback arguments; what happens to uncommitted data is left open by the documentation
    if (op.code == PURGE || op.code == PURGE_CB) {
        const size_t nn = MA.n_nested();
        std::vector<MI> keep; std::vector<std::pair<size_t, size_t>> moves;
        size_t oldoff = 0, newoff = 0; bool nonentity = false;
        for (size_t i = nn; i < MA.com.size(); ++i) {
            const size_t sz = msize(MA.com[i]);
            if (!is_entity(MA.com[i].m->type)) nonentity = true;
            if (!MA.com[i].removed) { if (oldoff != newoff) moves.emplace_back(oldoff, newoff); keep.push_back(MA.com[i]); newoff += sz; }
            oldoff += sz;
        }
        MA.com.resize(nn); MA.com.insert(MA.com.end(), keep.begin(), keep.end());
        const bool dropped = A.written() == A.committed();
        if (!MA.unc.empty() && counters_tristate) ++counters_tristate[dropped ? 0 : 1];
        if (dropped) MA.unc.clear();
        growth = moves.empty() ? "nothing-moved" : "moved";
        if (nonentity) {
            // Buffer::begin()/end() and purge_removed() are defined over OSM entities (t_iterator<OSMEntity>); a buffer whose top level
            // holds a bare sub-item list is not an "object assembled through the builder interface" in the sense of the property,
            // so what purge does with it is left open: the history is abandoned here and only counted.
            r->left_domain = true;
            return false;
        }
        if (A.committed() != newoff) return fail("purge/wrong-committed-size", "committed=" + std::to_string(A.committed()) + ", survivors need " + std::to_string(newoff));
        if (op.code == PURGE_CB && cb.calls != moves) {
            std::string d = "callback calls:";
            for (auto& c : cb.calls) d += " (" + std::to_string(c.first) + "->" + std::to_string(c.second) + ")";
            d += " expected:";
            for (auto& c : moves) d += " (" + std::to_string(c.first) + "->" + std::to_string(c.second) + ")";
            return fail("purge/callback-arguments-differ", d);
        }
    }
    if (r->nout < 16) r->outcome[r->nout++] = growth;

    // ---- content and geometry against the model
    if (!every_step && !last_step) return true;
    Hash2 h;
    if (!check_both(h, growth)) return false;
    r->h1 = h.a; r->h2 = h.b;
    return true;
}

#endif
